"""Per-property checks: which theorems, which families of cases, which oracles."""
import os
from . import core, gen
from .core import Family, Check, Broken

TB_COMMON = [
    "Coq 8.16.1 kernel (coqc; coqchk in the thorough tier); vm_compute used for closed examples only; no native_compute",
    "axioms: none (Print Assumptions reports 'Closed under the global context' under every theorem of the property file)",
    "hand-written Gallina model of the Rust functions named in DESIGN.md section 4 (modelled, not verified: all Rust source)",
    "translator gen/translate_codes.py (constants of codes.rs, input.rs, cli.rs, help.rs, builder.rs -> coq/Generated/Codes.v, regenerated every run)",
    "extraction: ExtrOcamlBasic only (Extract Inductive bool, option, unit, list, prod, sumbool, sumor; Extract Inlined Constant andb, orb, negb, fst, snd); no Extract Constant of our own; OCaml 4.13.1; ocaml/driver.ml parsing/printing",
    "correspondence check: harness/ (Rust, path dependency on /repo, feature verif-hooks), sink accepts whole slices; agreement is established on the inputs run only",
]


def c04(ck):
    rng = ck.rng
    thorough = ck.tier == "thorough"
    drv = core.build_driver()
    # 1. decisive family: generated well-formed greedy unit lists; expected events come from the extracted spec
    corpus = [l.strip() for l in open(os.path.join(core.ROOT, "corpus", "C04", "units.txt")) if l.strip() and not l.startswith("#")]
    n = 20000 if thorough else 3000
    unit_lines = corpus + [gen.rand_units(rng, 6 if i % 3 else 60) for i in range(n)]
    spec = core.run_engine(drv, "decu", unit_lines, is_impl=False)
    cases, expect, kinds = [], {}, {}
    rejected = 0
    for ul, so in zip(unit_lines, spec):
        if so == "REJECT":
            rejected += 1
            continue
        b, ev = so.split(" ", 1)
        cases.append(b)
        expect[b] = ev
        for u in ul.split(" "):
            k = u[:3] if u[:3] in ("csi", "ign", "tcr", "tlf", "tab") else (u if u == "bs" else "chr%d" % (len(u) // 2))
            kinds[k] = kinds.get(k, 0) + 1
    ck.cov["unit_kinds"] = kinds
    ck.cov["unit_lists_rejected_by_greedyb"] = rejected

    def oracle(case, io):
        if io != expect[case]:
            return "C04 spec (flat_map events_of units) expects [%s], implementation decoded [%s]" % (expect[case], io)
        return None

    ck.run_family(Family("units-spec", "dec", cases, oracle=oracle, decisive=True, shrink=None,
                         nontrivial=lambda c, o: "EN" in o or "UP" in o or len(c) > 8))
    # 2. exhaustive over 26 byte classes: model vs implementation on arbitrary (also malformed) streams
    depth = 4 if thorough else 3
    ex = list(gen.product_hex(gen.DEC_CLASSES, depth))
    ck.run_family(Family("bytes-exhaustive-depth%d" % depth, "dec", ex, decisive=False, shrink=core.shrink_hex_line, exhaustive=True,
                         nontrivial=lambda c, o: o != "-"))
    # 3. random raw byte streams (malformed weighted)
    m = 20000 if thorough else 3000
    rb = [gen.hx(gen.rand_bytes_malformed(rng, 40)) for _ in range(m)]
    ck.run_family(Family("bytes-random", "dec", rb, decisive=False, shrink=core.shrink_hex_line, nontrivial=lambda c, o: o != "-"))
    # the decoder as the Cli drives it (one process_byte call per byte, its memory kept between calls): sessions of keys and malformed bytes
    # against the model, judged on line, cursor and handler calls
    cs = [gen.rand_session(rng, rng.choice([15, 40]), api=False, malformed=True) for _ in range(3000 if thorough else 1200)]
    ck.run_family(Family("cli-decoding", "ses", cs, decisive=False, shrink=core.shrink_ops_line(4), oracle=make_abstract_oracle(cs, fields=("text", "cur", "calls")),
                         project=lambda o: [(s_["text"], s_["cur"], s_["calls"]) for s_ in (parse_steps(o) or [])] or o,
                         nontrivial=lambda c, o: "0d" in c or "0a" in c))
    # the same with application calls (Cli::write, set_prompt) anywhere, also BETWEEN the bytes of one key
    ca = [gen.rand_session(rng, rng.choice([15, 40]), api=True, malformed=True) for _ in range(2000 if thorough else 800)]
    # every key unit of more than one byte with, at every byte boundary, an application call or an ignored control byte in between:
    # the call must not disturb the decoder, the control byte is input like any other (it ends a CR LF pairing and an ESC [ opener)
    units = ["0d0a", "0a0d", "1b5b41", "1b5b42", "1b5b43", "1b5b44", "1b5b313b3543", "1b5b357e", "c3a9", "e282ac", "f09f9880", "0d0a0d0a", "1b1b5b41"]
    for u in units:
        bs = [u[i:i + 2] for i in range(0, len(u), 2)]
        for cut in range(1, len(bs)):
            for mid in ("w:s6f", "w:s6f6b0a", "w:", "p:2", "p:1", "b:00", "b:07", "b:11", "b:7f", "b:1b", "b:0d"):
                for pre in ("b:6162", "b:6162;b:1b5b44"):
                    ca.append("16 32 1 raw %s;b:%s;%s;b:%s;b:78;b:0d;b:1b5b41" % (pre, "".join(bs[:cut]), mid, "".join(bs[cut:])))
    ck.run_family(Family("cli-decoding-api", "ses", ca, decisive=False, shrink=core.shrink_ops_line(4), oracle=make_abstract_oracle(ca, fields=("text", "cur", "calls")),
                         project=lambda o: [(s_["text"], s_["cur"], s_["calls"]) for s_ in (parse_steps(o) or [])] or o,
                         nontrivial=lambda c, o: "0d" in c or "0a" in c))
    # ... and across a call that FAILED: decoding depends on the byte sequence only, so the second terminator of a CR LF / LF CR pair is
    # part of the same Enter also when the sink failed while the first was handled (every sink call of that Enter, once and for good)
    fc = []
    for first, second in (("0d", "0a"), ("0a", "0d")):
        for line in ("6162", "", "6563686f2061", "68656c70"):
            for j in range(8):
                for mode in ("once", "perm"):
                    fc.append("16 32 1 raw %sx:%d:%s;b:%s;x:off;b:%s;b:78;b:0d" % (("b:%s;" % line) if line else "", j, mode, first, second))

    def oracle_pair(case, io):
        st = parse_steps(io)
        if st is None:
            return "malformed session output / crash: " + io[:200]
        pb, before = st[-3], st[-4]
        if pb["calls"] != "-" or pb["sink"] != "-" or (pb["text"], pb["cur"]) != (before["text"], before["cur"]):
            return ("the second byte of a terminator pair was decoded as a key of its own after the call for the first byte %s: it wrote %s, "
                    "dispatched %s, line %s -> %s" % ("failed" if before["r"] == "err" else "returned", pb["sink"], pb["calls"], before["text"], pb["text"]))
        return None

    ck.run_family(Family("cli-pair-across-failed-call", "ses", fc, oracle=oracle_pair, impl_only=True, decisive=False, exhaustive=True,
                         nontrivial=lambda c, o: "err" in o))
    return ck.finish(
        trusted=TB_COMMON,
        rule="units-spec: random lists of key units accepted by the extracted wf_unitb/greedyb, bytes = flat_map bytes_of, implementation "
             "events compared with flat_map events_of (direct oracle); bytes-exhaustive: every stream of <= depth bytes over 26 boundary byte "
             "classes, implementation vs extracted model; bytes-random: malformed-weighted raw streams. non-trivial = produces at least one event",
        extra_assumptions=["decoder driven through the verif_hooks re-export of InputGenerator"])


def py_valid(hexs):
    if hexs == ".":
        return True
    try:
        bytes.fromhex(hexs).decode("utf-8", "strict")
        return True
    except UnicodeDecodeError:
        return False


U8_CLASSES = [0x00, 0x41, 0x7F, 0x80, 0x8F, 0x90, 0x9F, 0xA0, 0xBF, 0xC0, 0xC1, 0xC2, 0xDF, 0xE0, 0xE1, 0xEC, 0xED, 0xEE, 0xEF,
              0xF0, 0xF1, 0xF3, 0xF4, 0xF5, 0xF7, 0xF8, 0xFB, 0xFC, 0xFE, 0xFF]


def c02(ck):
    import time
    rng = ck.rng
    thorough = ck.tier == "thorough"

    def oracle_u8(case, io):
        if io == "-":
            return None
        for t in io.split(" "):
            if not py_valid(t) or len(bytes.fromhex(t).decode("utf-8", "replace")) != 1:
                return "accumulator handed out %s, which is not one well-formed UTF-8 scalar (input bytes %s)" % (t, case)
        return None

    # 1. accumulator: exhaustive over 30 boundary bytes, model vs implementation + validity oracle
    depth = 4 if thorough else 3
    ex = list(gen.product_hex(U8_CLASSES, depth))
    ck.run_family(Family("u8-exhaustive-depth%d" % depth, "u8", ex, oracle=oracle_u8, decisive=False, shrink=core.shrink_hex_line,
                         exhaustive=True, nontrivial=lambda c, o: o != "-"))
    # 2. resynchronisation: garbage ++ well-formed char must give output(garbage) ++ [char]
    n = 20000 if thorough else 4000
    garb = [gen.rand_bytes_malformed(rng, 6) for _ in range(n)]
    chars = [gen.rand_char(rng, 2) for _ in range(n)]
    try:
        hb = ck.binaries("hac", "debug")
        t = time.time()
        o1 = core.run_engine(hb, "u8", [gen.hx(g) for g in garb])
        o2 = core.run_engine(hb, "u8", [gen.hx(g + c) for g, c in zip(garb, chars)])
        bad = 0
        for g, c, a, b in zip(garb, chars, o1, o2):
            exp = (a + " " + gen.hx(c)) if a != "-" else gen.hx(c)
            if b != exp and bad < 3:
                bad += 1
                ck.report("u8-resync", "oracle", "after garbage %s the well-formed character %s must come out: expected [%s], got [%s]" % (
                    gen.hx(g), gen.hx(c), exp, b), {"case": gen.hx(g + c), "engine": "u8", "implementation_output": b})
        ck.count("u8-resync", n, len(set(zip(garb, chars))), seconds=time.time() - t, sample=gen.hx(garb[0] + chars[0]))
        # 3. implementation alone against core::str::from_utf8: all sequences of <= d bytes >= 0x80
        d = 4 if thorough else 3
        t = time.time()
        outs = core.run_engine(hb if not thorough else ck.binaries("hac", "release"), "u8x", ["%d %d 16" % (d, i) for i in range(16)])
        tot = 0
        for o in outs:
            m = dict(kv.split("=") for kv in o.split(" ")) if o.startswith("checked") else None
            if m is None:
                ck.report("u8x-all-high-bytes", "crash", "enumeration crashed: " + o, {"case": "u8x %d" % d})
                continue
            tot += int(m["checked"])
            if m["bad"] != "-":
                first = m["bad"].split(",")[0]
                ck.report("u8x-all-high-bytes", "oracle", "bytes %s (then c3 a9): accumulator output rejected by core::str::from_utf8 or the following "
                          "well-formed character was lost" % first, {"case": first + "c3a9", "engine": "u8"})
        ck.count("u8x-all-high-bytes", tot, tot, exhaustive=True, seconds=time.time() - t, sample="all byte strings of length 1..%d over 0x80..0xFF, each followed by c3 a9" % d)
    except Broken as b:
        ck.broken(b)
    # 4. decoder level: character events of arbitrary streams
    def oracle_dec(case, io):
        for t in io.split(" "):
            if t.startswith("c:") and not py_valid(t[2:]):
                return "decoder produced the character event %s which is not well-formed UTF-8 (input %s)" % (t, case)
        return None
    m = 20000 if thorough else 4000
    rb = [gen.hx(gen.rand_bytes_malformed(rng, 30)) for _ in range(m)]
    ck.run_family(Family("dec-random-malformed", "dec", rb, oracle=oracle_dec, decisive=False, shrink=core.shrink_hex_line,
                         nontrivial=lambda c, o: "c:" in o))
    # 5. everything handed out through the whole Cli: line, sink bytes per call, handler strings; raw and derived (multi-byte names) sets
    declgen, sets = ensure_decls(ck)
    ses = []
    for i in range(3000 if thorough else 600):
        ops = gen.rand_session_ops(rng, rng.choice([15, 40]), api=True, malformed=True)
        ses.append("%d %d %d raw %s" % (rng.choice(gen.SMALL_CAPS), rng.choice(gen.SMALL_CAPS), rng.randrange(4), ";".join(ops)))
    for k, s_ in enumerate(sets):
        for nm in declgen.all_names(s_) + ["help"]:
            for j in range(1, len(nm) + 1):
                pre = nm[:j].encode("utf-8")
                ses.append("%d 16 1 d%d b:%s;b:09;b:0d" % (len(pre) + rng.choice([0, 1, 2, 3, 8]), k, gen.hx(pre)))
                if len(nm.encode("utf-8")) != len(nm) and j <= 3:
                    # names with multi-byte characters: EVERY buffer size between the typed prefix and the whole name, so that the free space ends
                    # on every byte of every character of the completion (a cut inside a 3- or 4-byte character included)
                    for cap in range(len(pre), len(nm.encode("utf-8")) + 2):
                        ses.append("%d 16 1 d%d b:%s;b:09;b:0d" % (cap, k, gen.hx(pre)))

    ses += tab_sweep_sessions(declgen, sets)
    # a sink that takes only a few bytes per write call: long echoes (recall, redraw after Cli::write / set_prompt, completion) are cut
    # into pieces by the sink, and every byte must still arrive
    for _ in range(300 if thorough else 60):
        words = [rng.choice(["\u0434\u0430\u0442\u0447\u0438\u043a\u0430\u043c", "ab \u4f50\u4f57\u4f50", "\U0001f600\U0001f600x", "echo \u00e9\u20ac\u00e9\u20ac"]) for _ in range(2)]
        ops = ["y:%d" % rng.choice([1, 2, 3, 5, 8])]
        for w in words:
            ops += ["b:" + gen.hx(w.encode("utf-8")), "b:0d"]
        ops += ["b:1b5b41", "b:1b5b44", "w:s6f6b", "p:%d" % rng.randrange(6), "b:1b5b41", "b:1b5b42", "b:0d"]
        ses.append("40 64 %d raw %s" % (rng.randrange(6), ";".join(ops)))
    # every boundary scalar deleted from the MIDDLE of a line (Backspace with text after it) and moved over, then submitted and recalled:
    # a width taken from the lead byte by a slightly wrong table leaves a stray octet behind
    for cp in sorted(set(gen.BOUNDARY_CPS + [0x800, 0x801, 0xE01, 0xFFF, 0x1000, 0xD7FF, 0xE000, 0xFFFD, 0xFFFF, 0x10000, 0x3FFFF, 0x40000, 0xFFFFF, 0x100000, 0x10FFFF])):
        if cp in (0x20, 0x7F, 0x22, 0x5C) or 0xD800 <= cp <= 0xDFFF or cp < 0x20:
            continue
        e = gen.hx(gen.enc(cp))
        ses.append("16 32 1 raw b:61%s62;b:1b5b44;b:08;b:0d;b:1b5b41;b:0d" % e)
        ses.append("16 32 1 raw b:%s%s78;b:1b5b44;b:1b5b44;b:08;b:1b5b43;b:08;b:0d;b:1b5b41" % (e, e))
    # the library's own messages that quote what was typed: an unknown short option / long option / argument made of boundary scalars of
    # every encoded length (the short option goes through char_pop_front and back through encode_utf8)
    for k, s_ in enumerate(sets):
        nm0 = (declgen.all_names(s_) or ["x"])[0]
        for cp in gen.BOUNDARY_CPS + [0xE01, 0xFFF, 0x1000, 0xBF, 0x3F000, 0x10D800, 0x10DC00, 0x10DFFF, 0x100000, 0xFFFFF, 0xF0000]:
            ch = chr(cp)
            for tail in ("-" + ch, "-v" + ch, "--" + ch + "x", ch + ch):
                ses.append(lines_to_session(k, [declgen.q(nm0) + " " + declgen.q(tail)], cap=60))
                if k > 2:
                    break

    def oracle_all(case, io):
        st = parse_steps(io)
        if st is None:
            return "crash / malformed output: " + io[:200]
        for k, x in enumerate(st):
            if not py_valid(x["text"]):
                return "step %d: the edited line %s is not valid UTF-8" % (k, x["text"])
            if x["sink"] != "-":
                b = "".join(o[1:] for o in x["sink"].split(",") if o.startswith("W") and o != "W.")
                if b and not py_valid(b):
                    return "step %d: bytes written to the terminal are not valid UTF-8: %s" % (k, b)
            for tok in __import__("re").findall(r"[0-9a-f]{2,}", x["calls"]) if x["calls"] != "-" else []:
                if len(tok) % 2 == 0 and not py_valid(tok) and ":" not in tok:
                    pass
        return None

    ck.run_family(Family("session-everything-valid", "ses", ses, oracle=oracle_all, decisive=False, shrink=core.shrink_ops_line(4),
                         project=lambda o: [(x["text"], x["calls"]) for x in (parse_steps(o) or [])] or o, nontrivial=lambda c, o: True))
    return ck.finish(
        trusted=TB_COMMON + ["Python's strict UTF-8 decoder and Rust's core::str::from_utf8 as independent validity oracles"],
        rule="u8-exhaustive: every byte string of length <= depth over 30 boundary bytes through Utf8Accum (implementation vs model, every emitted string "
             "validated); u8-resync: random garbage followed by a random well-formed char; u8x: ALL strings over 0x80..0xFF up to the stated length, inside the "
             "harness, against core::str::from_utf8; dec-random: malformed-weighted streams through InputGenerator. non-trivial = emits at least one string")


def drv_run(engine, lines, featset=None):
    drv = core.build_driver()
    return core.run_engine(drv, engine, lines, is_impl=False)


def parse_steps(out):
    steps = []
    for st in out.split(" ; "):
        f = st.split("|")
        if len(f) != 7:
            return None
        steps.append({"r": f[0], "text": f[1], "cur": f[2], "hist": f[3], "p": f[4], "calls": f[5], "sink": f[6]})
    return steps


def with_short_writes(rng, case):
    """the same session with the sink accepting at most 1 / 2 / 3 / 5 bytes per write call (op y:<k>, invisible to the model)"""
    head, ops = case.rsplit(" ", 1)
    return head + " y:%d;" % rng.choice([1, 2, 3, 5]) + ops


def sinkb(sink):
    """what a step wrote, independent of how it was chunked and where it was flushed (chunking / flush positions are C15's business):
    the concatenated bytes, plus a mark if a sink call failed"""
    if sink == "-":
        return ""
    ops = sink.split(",")
    return "".join(o[1:] for o in ops if o.startswith("W") and o != "W.") + ("!" if any(o.startswith("X") for o in ops) else "")


def hist_entries_of(field):
    raw = field.split("/")[0]
    b = bytes.fromhex(raw) if raw not in (".", "", "-") else b""
    return b.split(b"\x00")[:-1] if b else []


def make_abstract_oracle(cases, fields=("text", "cur", "hist", "calls")):
    """direct oracle for whole sessions (scripted handler, working sink): the ABSTRACT SESSION of Spec/Session.v (ideal editor over scalar
    values, history as an entry list, dispatch = tokens of the line unless help / rejected), extracted and run on the events the extracted
    decoder makes of the bytes (driver engine aspec). After every input byte the implementation's line, cursor, retained history entries
    and handler calls must be those of the abstract session - this is the statement of C01_dispatch / C05_cli / C10_cli evaluated on the
    implementation instead of the model."""
    usable = lambda c: " raw " in c and "x:" not in c
    todo = [c for c in cases if usable(c)]
    cache = dict(zip(todo, drv_run("aspec", todo))) if todo else {}

    def oracle(case, io):
        if not usable(case):
            return None
        st = parse_steps(io)
        if st is None:
            return "crash / malformed output: " + io[:300]
        a = cache.get(case)
        if a is None:
            a = drv_run("aspec", [case])[0]
        recs = a.split(" ; ")
        if len(recs) != len(st):
            return "abstract session has %d steps, implementation %d" % (len(recs), len(st))
        for k, (r, s_) in enumerate(zip(recs, st)):
            if s_["r"] != "ok":
                return "step %d: the call returned %s with a working sink" % (k, s_["r"])
            t, c, h, calls = r.split("|")
            ih = ",".join(e.hex() for e in hist_entries_of(s_["hist"])) or "-"
            if s_["hist"] == "-":
                ih = h
            got = {"text": s_["text"], "cur": s_["cur"], "hist": ih, "calls": s_["calls"]}
            want = {"text": t, "cur": c, "hist": h, "calls": calls}
            # only the components the property at hand speaks about (a defect in another component is another property's finding)
            if any(got[f] != want[f] for f in fields):
                return ("step %d: the abstract session (ideal line / abstract history / dispatch) has line %s cursor %s history [%s] calls %s, "
                        "the implementation has line %s cursor %s history [%s] calls %s" % (k, t, c, h, calls, s_["text"], s_["cur"], ih, s_["calls"]))
        return None
    return oracle


# ------------------------------------------------------------------ C07 tokenisation
def c07(ck):
    rng = ck.rng
    thorough = ck.tier == "thorough"
    # 1. exhaustive short lines over six symbols: implementation vs in-place model; spec tokeniser as oracle
    depth = 7 if thorough else 6
    lines = [gen.hx(b) for b in gen.product_bytes(gen.TOK_ALPHA, depth)]
    spec = dict(zip(lines, drv_run("tokspec", lines)))

    def oracle_tok(case, io):
        m = dict(kv.split("=", 1) for kv in io.split(" "))
        if m["toks"] != spec[case]:
            return "quoting rules (tokens_fun) give [%s] for line %s, implementation gave [%s]" % (spec[case], case, m["toks"])
        return None

    proj = lambda o: o.split(" toks=")[1] if " toks=" in o else o
    ck.run_family(Family("tok-exhaustive-len%d" % depth, "tok", lines, project=proj, oracle=oracle_tok, shrink=core.shrink_hex_line,
                         exhaustive=True, nontrivial=lambda c, o: "toks=-" not in o))
    # 2. random long lines
    n = 20000 if thorough else 3000
    rl = sorted(set([gen.hx(gen.rand_line(rng, 40)) for _ in range(n)] +
                    # lines, token positions and token counts beyond 255
                    [gen.hx(b"ab " * 90 + gen.rand_line(rng, 300)) for _ in range(12)] + [gen.hx(b"a " * 300), gen.hx(b'"" ' * 130 + b"x"), gen.hx(b'"' + b"a b" * 100 + b'" y')]))
    spec.update(zip(rl, drv_run("tokspec", rl)))
    ck.run_family(Family("tok-random", "tok", rl, project=proj, oracle=oracle_tok, shrink=core.shrink_hex_line,
                         nontrivial=lambda c, o: "," in o))
    # 3. round trip: quote a list of arbitrary strings, tokenise, get the list back
    m = 30000 if thorough else 5000
    lists = [[gen.rand_string(rng) for _ in range(rng.choice([0, 1, 1, 2, 2, 3, 4]))] for _ in range(m)]
    lists += [[b""], [b"", b"a"], [b"", b""], [b"a", b""], [b'"'], [b"\\"], [b" "], [b"a b", b'c"d', b"e\\f"]]
    qin = [",".join(gen.hx(x) for x in l) if l else "-" for l in lists]
    qout = drv_run("quote", qin)
    rendered = [o.split(" ")[0] for o in qout]
    want = {}
    for l, r in zip(lists, rendered):
        want[r] = ",".join(gen.hx(x) for x in l) if l else "-"

    def oracle_rt(case, io):
        got = io.split(" toks=")[1]
        if got != want[case]:
            return "round trip: tokenising the quoted rendering %s must return [%s], implementation returned [%s]" % (case, want[case], got)
        return None

    ck.run_family(Family("quote-roundtrip", "tok", sorted(set(rendered)), project=proj, oracle=oracle_rt, shrink=None,
                         nontrivial=lambda c, o: True))
    # 4. the same round trip as seen by the handler through the whole Cli (name and arguments)
    ses, swant = [], {}
    for _ in range(3000 if thorough else 600):
        l = [gen.rand_string(rng) for _ in range(rng.choice([1, 2, 2, 3, 4]))]
        l = [x if not x.startswith(b"-") else b"a" + x for x in l]
        if l[0] in (b"help",):
            continue
        line = drv_run("quote", [",".join(gen.hx(x) for x in l)])[0].split(" ")[0]
        c = "%d 64 1 raw b:%s;b:0d" % (max(64, len(line) // 2 + 4), line)
        ses.append(c)
        swant[c] = "%s(%s)" % (gen.hx(l[0]), ",".join("V:" + gen.hx(x) for x in l[1:]) if len(l) > 1 else "-")

    def oracle_ses(case, io):
        st = parse_steps(io)
        if st is None:
            return "crash / malformed output: " + io[:200]
        if st[-1]["calls"] != swant[case]:
            return "handler must receive %s for the quoted line, it received %s" % (swant[case], st[-1]["calls"])
        return None

    ck.run_family(Family("session-roundtrip", "ses", ses, oracle=oracle_ses, project=lambda o: [x["calls"] for x in (parse_steps(o) or [])] or o,
                         shrink=None, nontrivial=lambda c, o: True))
    # 5. ANY line typed through the whole Cli: what the handler receives is the tokens of the line as typed (unclosed quotes, blanks at
    #    the end inside them, adjacency, escapes): every line up to a length over the six symbols + random lines, judged by the abstract
    #    session (dispatch = tokens_fun of the line)
    sl = ["48 33 1 raw b:%s;b:0d" % gen.hx(b) for b in gen.product_bytes(gen.TOK_ALPHA, 5 if thorough else 4) if b]
    sl += ["64 33 1 raw b:%s;b:0d" % l for l in rl[:2000 if thorough else 500] if l != "."]
    ck.run_family(Family("session-lines", "ses", sl, oracle=make_abstract_oracle(sl, fields=("calls",)), project=lambda o: [x["calls"] for x in (parse_steps(o) or [])] or o,
                         shrink=None, nontrivial=lambda c, o: "(" in o))
    return ck.finish(trusted=TB_COMMON, rule="tok-exhaustive: every line up to the stated length over {a, space, quote, backslash, dash, e-acute}; "
                     "tok-random: random lines up to 40 symbols; quote-roundtrip: lists of arbitrary NUL-free strings rendered by the extracted "
                     "render_quoted, tokenised by the implementation, compared with the list. Oracle = extracted tokens_fun. non-trivial = at least one token")


# ------------------------------------------------------------------ C08 argument classification
def c08(ck):
    rng = ck.rng
    thorough = ck.tier == "thorough"
    import itertools
    depth = 4 if thorough else 3
    lines = []
    for k in range(depth + 1):
        for t in itertools.product(gen.ARG_TOKENS[:9], repeat=k):
            lines.append(gen.hx(gen.cmd_line(b"c", list(t))))
    n = 20000 if thorough else 4000
    for _ in range(n):
        toks = [rng.choice(gen.ARG_TOKENS) if rng.randrange(3) else b"-" * rng.randrange(0, 4) + gen.rand_text(rng, 3, 1).replace(b" ", b"").replace(b'"', b"").replace(b"\\", b"")
                for _ in range(rng.randrange(0, 7))]
        name = rng.choice([b"c", b"help", b"get", "é".encode()])
        lines.append(gen.hx(gen.cmd_line(name, toks)))
    # more than 255 arguments, a cluster of more than 255 characters, names longer than 255 bytes, `--` after the 256th token
    lines += [gen.hx(gen.cmd_line(b"c", [b"-a", b"v"] * 140 + [b"--", b"-x"])), gen.hx(gen.cmd_line(b"c", [b"-" + "a\u00e9".encode() * 140, b"--" + b"n" * 300, b"v" * 300])),
              gen.hx(gen.cmd_line(b"c", [b"x"] * 256 + [b"--", b"--y", b"-z"]))]
    lines = sorted(set(lines))
    spec = dict(zip(lines, drv_run("argspec", lines)))

    def oracle(case, io):
        got = io.split(" help=")[0] if io != "none" else "none"
        if got != spec[case]:
            return "classification spec (classify_all) gives [%s] for line %s, implementation gave [%s]" % (spec[case], case, got)
        return None

    ck.run_family(Family("args-classify", "cmd", lines, oracle=oracle, shrink=core.shrink_hex_line,
                         nontrivial=lambda c, o: "args=-" not in o and o != "none"))
    return ck.finish(trusted=TB_COMMON, rule="every token list up to the stated length over {'', -, --, -a, -a+e-acute, --x, ---x, a, 'e-acute b'} plus random lists "
                     "with clusters of multi-byte characters; quoted so that the tokeniser reproduces the tokens; implementation (ArgsIter, into_args "
                     "after every k, HelpRequest) vs model, and vs the extracted classify_all. non-trivial = at least one argument")


# ------------------------------------------------------------------ C13 framing
def c13(ck):
    rng = ck.rng
    thorough = ck.tier == "thorough"
    n = 30000 if thorough else 5000
    cases = ["-", "s:.", "l:.", "s:0a", "l:0a", "s:0d0a", "s:610d;s:0a", "s:61;s:0d0a", "l:610a62", "s:0d;s:0a62", "s:61;s:.", "u:610a", "f:62"]
    cases += [gen.rand_writer_ops(rng) for _ in range(n)]
    # texts and line counts beyond 255: one write of 300 bytes with line feeds after position 256, 300 short lines, a 300-byte line per call
    cases += ["s:" + gen.hx(b"a" * 256 + b"\n" + b"b" * 10 + b"\n"), "s:" + gen.hx(b"x\n" * 300), "l:" + gen.hx(b"y" * 300) + ";s:" + gen.hx("\u00e9".encode() * 200),
              "s:" + gen.hx(b"a" * 255) + ";s:0a", "u:" + gen.hx(b"z" * 257 + b"\n" + b"z")]
    # every line length 0..80 before a line feed, in one call and with the line feed in a call of its own, ASCII and multi-byte: a scratch
    # buffer of some fixed size shows at one or two lengths only
    for n_ in range(0, 81):
        cases += ["s:" + gen.hx(b"a" * n_ + b"\nb"), "s:" + gen.hx(b"a" * n_) + ";s:0a;s:62", "s:" + gen.hx("\u00e9".encode() * (n_ // 2) + b"x" * (n_ % 2) + b"\n" + b"c" * n_ + b"\n")]
    cases = sorted(set(cases))
    spec = dict(zip(cases, drv_run("wrspec", cases)))
    # the property is about what the terminal shows (own lines, fresh line for the prompt, line and cursor redisplayed): the frame the
    # implementation produced and the frame of the spec (frame_write) are both shown to the extracted terminal after the build prompt and
    # must give the same screen (finished rows, current row, column). Equal bytes are the common case and need no terminal.
    scr_cache = {}

    def screens(frames):
        todo = sorted(set(f for f in frames if f not in scr_cache))
        if todo:
            for f, r in zip(todo, drv_run("screen", [f.split(" ")[0] + " 503e20" + f.split(" ", 1)[1].replace(".", "") if " " in f else f for f in todo])):
                scr_cache[f] = r
        return [scr_cache[f] for f in frames]

    screens(list(spec.values()))

    def oracle(case, io):
        if io == spec[case]:
            return None
        if not io.startswith("ok ") and not io.startswith("err "):
            return "crash / malformed output: " + io[:200]
        a, b = screens([io, spec[case]])
        if a != b:
            return "framing spec: writes [%s] must put %s on the sink (screen %s), implementation put %s (screen %s)" % (case, spec[case], b, io, a)
        return None

    ck.run_family(Family("writer-frame", "wr", cases, oracle=oracle, shrink=core.shrink_ops_line(0),
                         bulk_project=lambda outs: screens([o if " " in o else o + " ." for o in outs]),
                         nontrivial=lambda c, o: c != "-"))
    # sessions with handler output and Cli::write at arbitrary points: framing of every Enter / write call
    m = 6000 if thorough else 3000
    ses = [gen.rand_session_w1(rng, 25) for _ in range(m)]
    # the same through a sink with a small transmit buffer (short writes): the text must reach the terminal unchanged all the same
    ses += [with_short_writes(rng, gen.rand_session_w1(rng, 25)) for _ in range(m // 6)]

    def oracle_view(case, io):
        v = drv_run("termchk", [io])[0]
        return None if v == "ok" else "after application output the terminal does not show prompt + line with the cursor at the editor position: " + v

    def oracle_view_batch(cases, outs):
        return dict(zip(cases, drv_run("termchk", outs)))

    try:
        _impl = core.run_engine(ck.binaries("hac", "debug"), "ses", ses)
        _verdict = oracle_view_batch(ses, _impl)
    except Broken as b:
        ck.broken(b)
        _verdict = {}

    ERRP = b"error: ".hex()

    def oracle_fast(case, io):
        # the library's own `error: ...` reports (unknown command, parse errors - also of a processor that rejects a command after having
        # written output) start at column 0 of a fresh line: directly after a CR LF. (No generated text contains "error: ".)
        for k_, st_ in enumerate(parse_steps(io) or []):
            b_ = sinkb(st_["sink"])
            i_ = b_.find(ERRP)
            while i_ >= 0:
                if i_ % 2 == 0 and not b_[:i_].endswith("0d0a"):
                    return "step %d: the library's error report does not start on a fresh line: ...%s" % (k_, b_[max(0, i_ - 24):i_ + 40])
                i_ = b_.find(ERRP, i_ + 2)
        v = _verdict.get(case)
        if v is None or v != "ok":
            return oracle_view(case, io)
        return None

    ck.run_family(Family("session-frames", "ses", ses, shrink=core.shrink_ops_line(4), decisive=False, oracle=oracle_fast,
                         bulk_project=lambda outs: drv_run("termproj", outs),
                         nontrivial=lambda c, o: "w:" in c or "0d" in c))
    # the help the derive macros generate is application-like output framed by the library (command lists of plain sets and of groups with
    # hidden / empty / nested members, command help with arguments, options and sub-commands): every frame byte for byte against the model,
    # and the rule itself - nothing but CR LF between the echoed line and the output, exactly one line break before the prompt
    declgen, sets = ensure_decls(ck)
    hses = []
    for k, s_ in enumerate(sets):
        if not thorough and k >= 24:
            break
        names = declgen.all_names(s_)
        lines = ["help"] + [x for nm in names[:6] for x in ("help " + declgen.q(nm), declgen.q(nm) + " --help")] + ["help nosuch"]
        for i in range(0, len(lines), 7):
            hses.append(lines_to_session(k, lines[i:i + 7], cap=100))

    def oracle_help(case, io):
        es = enter_steps(case, io)
        if es is None:
            return "crash / malformed output: " + io[:300]
        for line, st in es:
            if st is None or st["r"] != "ok":
                continue
            b_ = sinkb(st["sink"])
            if not b_.startswith("0d0a"):
                return "the output of `%s` does not start on a fresh line: %s" % (line, b_[:60])
            if b_.startswith("0d0a0d0a") and line == "help":
                return "the command list of `help` starts with an empty line: %s" % b_[:80]
            body = b_[:b_.rfind(gen.hx(b"$ "))] if b_.endswith(gen.hx(b"$ ")) else None
            if body is not None and len(body) > 4 and not body.endswith("0d0a"):
                return "before the prompt after `%s` there is not exactly the end of the last output line: ...%s" % (line, body[-40:])
        return None

    # a hand-written `Help` (the public trait, on an enum declared with skip_help) whose listing and command help end WITHOUT a line break:
    # the library still owes the line break before the prompt
    names0 = declgen.all_names(sets[0])
    flines = ["help", "help " + names0[0], names0[-1] + " --help", "help"]
    fcases = ["40 32 %d dfoot %s" % (pi_, ";".join("b:" + gen.hx(l.encode()) + ";b:0d" for l in flines)) for pi_ in (1, 2, 3)]

    def oracle_foot(case, io):
        st = parse_steps(io)
        if st is None:
            return "crash / malformed output: " + io[:300]
        k = 1
        for l in flines:
            k += len(l.encode()) + 1
            f = st[k - 1]
            out = sinkb(f["sink"])
            foot = gen.hx(b"-- end of list") if l == "help" else gen.hx(b"(more in the manual)")
            i_ = out.find(foot)
            if i_ < 0:
                return "the hand-written help text of `%s` is missing: %s" % (l, out[:200])
            if not out[i_ + len(foot):].startswith("0d0a"):
                return "the help text of `%s` ends mid-line and the prompt follows on the SAME line: ...%s" % (l, out[i_:])
        return None

    ck.run_family(Family("hand-written-help-footer", "ses", fcases, oracle=oracle_foot, impl_only=True, decisive=False, shrink=None, nontrivial=lambda c, o: True))
    ck.run_family(Family("derived-help-frames", "ses", hses, oracle=oracle_help, shrink=core.shrink_ops_line(4),
                         project=lambda o: [(x["r"], sinkb(x["sink"])) for x in (parse_steps(o) or [])] or o, nontrivial=lambda c, o: True))
    return ck.finish(trusted=TB_COMMON, rule="writer-frame: random texts (LF, CR LF, CR, empty) split over write_str/writeln_str/uwrite!/write! calls inside "
                     "Cli::write; sink bytes compared with the extracted frame_write; session-frames: random sessions, sink bytes per call "
                     "implementation vs model. non-trivial = at least one write")


# ------------------------------------------------------------------ C05 editor
def c05(ck):
    rng = ck.rng
    thorough = ck.tier == "thorough"
    import itertools
    alpha = gen.ed_ops_alphabet()
    depth = 5 if thorough else 4
    cases = []
    for cap in range(0, 9):
        for k in range(depth + 1):
            for t in itertools.product(alpha, repeat=k):
                cases.append("%d %s" % (cap, ";".join(t)))
    ex_n = len(cases)
    n = 20000 if thorough else 3000
    for _ in range(n):
        cases.append("%d %s" % (rng.choice([0, 1, 2, 3, 4, 5, 6, 7, 8, 9, 12, 16]), ";".join(gen.rand_ed_ops(rng, rng.randrange(1, 40)))))
    cases += gen.long_ed_cases(rng, 40 if thorough else 12)          # lines, cursors and buffers beyond 255
    spec = dict(zip(cases, drv_run("edspec", cases)))

    def oracle(case, io):
        if io != spec[case]:
            a, b = io.split(" "), spec[case].split(" ")
            k = next((i for i in range(min(len(a), len(b))) if a[i] != b[i]), min(len(a), len(b)))
            return "ideal editor differs at op %d: ideal %s, implementation %s" % (k, b[k] if k < len(b) else "-", a[k] if k < len(a) else "-")
        return None

    ck.run_family(Family("editor-ops", "ed", cases, oracle=oracle, shrink=core.shrink_ops_line(1),
                         nontrivial=lambda c, o: ":N:" in o or "ml" in c or "rm" in c))
    ck.cov["families"]["editor-ops"]["exhaustive_part"] = "all op sequences of length <= %d over 7 ops for cap 0..8 (%d cases)" % (depth, ex_n)
    # the same operations mixed with completions (candidates with multi-byte characters, blanks around the cursor): the line stays the
    # model's line; the completion itself is judged in C11
    ccases = []
    for _ in range(6000 if thorough else 1500):
        ops = gen.rand_ed_ops(rng, rng.randrange(1, 12))
        for _i in range(rng.choice([1, 1, 2])):
            if rng.randrange(4) == 0:
                # two candidates that part INSIDE a character (same lead octet, same first continuation octets)
                a_, b_ = rng.choice([("\u4f50", "\u4f57"), ("\U00011fc1", "\U00011fc6"), ("\uac00", "\uac01"), ("\u00e9", "\u00ea")])
                pre_ = rng.choice(["", "k", "\u0436"])
                cands = gen.hx((pre_ + a_ + "x").encode("utf-8")) + "," + gen.hx((pre_ + b_).encode("utf-8"))
            else:
                cands = ",".join(gen.hx(rng.choice(gen.MB).encode("utf-8") * rng.choice([1, 2]) + rng.choice([b"", b"k"])) for _ in range(rng.choice([1, 2])))
            ops.insert(rng.randrange(len(ops) + 1), "ac:" + cands)
            ops.insert(rng.randrange(len(ops) + 1), "i:" + "20" * rng.choice([1, 2, 3]))
        ccases.append("%d %s" % (rng.choice([4, 8, 9, 12, 16, 40]), ";".join(ops)))
    ck.run_family(Family("editor-ops-completion", "ed", ccases, shrink=core.shrink_ops_line(1), decisive=False, nontrivial=lambda c, o: True))
    # through the whole Cli
    m = 6000 if thorough else 3000
    ses = [gen.rand_session(rng, 30, api=False) for _ in range(m)]
    ck.run_family(Family("session-line", "ses", ses, shrink=core.shrink_ops_line(4), decisive=False, oracle=make_abstract_oracle(ses, fields=("text", "cur")),
                         project=lambda o: [(s["text"], s["cur"]) for s in (parse_steps(o) or [])] or o,
                         nontrivial=lambda c, o: "1b5b44" in c))
    return ck.finish(trusted=TB_COMMON, rule="editor-ops: every sequence of <= depth operations over {insert a/e-acute/euro/emoji, left, right, remove} for buffer sizes 0..8, "
                     "plus random long sequences (multi-char inserts, clear); text/cursor/accepted after every op vs the extracted ideal_step; session-line: "
                     "random key sessions, (text, cursor) after every byte implementation vs model. non-trivial = a rejected insert, a move or a removal occurs")


# ------------------------------------------------------------------ C10 history
def hist_project_impl(o):
    """raw buffer -> entry list and position index"""
    out = []
    for st in o.split(" "):
        f = st.split(":")
        if len(f) != 3:
            return o
        ret, buf, cur = f
        b = bytes.fromhex(buf) if buf != "." else b""
        ents = b.split(b"\x00")[:-1] if b else []
        pos = "N"
        if cur != "N":
            off, pos = 0, "?"
            for i, e in enumerate(ents):
                if off == int(cur):
                    pos = str(i)
                off += len(e) + 1
        out.append("%s:%s:%s" % (ret, ",".join(gen.hx(e) for e in ents) if ents else "-", pos))
    return " ".join(out)


def c10(ck):
    rng = ck.rng
    thorough = ck.tier == "thorough"
    import itertools
    alpha = ["p:61", "p:62", "p:c3a9", "p:6162", "o", "n"]
    depth = 6 if thorough else 5
    cases = []
    for hcap in range(0, 11):
        for k in range(depth + 1):
            for t in itertools.product(alpha, repeat=k):
                cases.append("%d %s" % (hcap, ";".join(t)))
    ex_n = len(cases)
    n = 20000 if thorough else 4000
    for _ in range(n):
        cases.append("%d %s" % (rng.choice([0, 1, 2, 3, 4, 5, 6, 7, 8, 9, 10, 12, 16, 24]), ";".join(gen.rand_hist_ops(rng, rng.randrange(1, 40)))))
    cases += gen.long_hist_cases(rng, 40 if thorough else 12)        # entries and buffers beyond 255 bytes
    # a DEEP history: twenty / forty distinct short entries, then entries from far back submitted again (a search that gives up after some
    # depth shows only here), walked to the end
    for depth_ in (20, 40):
        es_ = ["p:" + gen.hx(("%c%c" % (97 + i // 26, 97 + i % 26)).encode()) for i in range(depth_)]
        for again in (0, 1, 2, depth_ // 2):
            cases.append("%d %s" % (depth_ * 3 + 8, ";".join(es_ + [es_[again]] + ["o"] * (depth_ + 2) + ["n"] * 3)))
    spec = dict(zip(cases, drv_run("histspec", cases)))

    def oracle(case, io):
        got = hist_project_impl(io)
        if got != spec[case]:
            a, b = got.split(" "), spec[case].split(" ")
            k = next((i for i in range(min(len(a), len(b))) if a[i] != b[i]), min(len(a), len(b)))
            return "history spec differs at op %d: spec %s, implementation %s" % (k, b[k] if k < len(b) else "-", a[k] if k < len(a) else "-")
        return None

    ck.run_family(Family("history-ops", "hist", cases, oracle=oracle, project=hist_project_impl, shrink=core.shrink_ops_line(1),
                         nontrivial=lambda c, o: "o" in c.split(" ", 1)[-1].split(";") and "p:" in c))
    ck.cov["families"]["history-ops"]["exhaustive_part"] = "all op sequences of length <= %d over %s for hcap 0..10 (%d cases)" % (depth, alpha, ex_n)
    m = 6000 if thorough else 3000
    ses = [gen.rand_session(rng, 40, api=False) for _ in range(m)]
    # lines with blanks at the ends, blank-only lines, a line that is a suffix / prefix of the previous one, at boundary history sizes
    for _ in range(m // 3):
        ws = []
        for _ in range(rng.randrange(2, 6)):
            w = rng.choice([b"ab", b"cd", b"b", b"on", b"set on", "привет".encode(), "say привет".encode(), b"a"])
            ws.append(rng.choice([b"", b"", b" ", b"  "]) + w + rng.choice([b"", b"", b" ", b"  "]))
            if rng.randrange(6) == 0:
                ws.append(b"  ")
        ops = []
        for w in ws:
            ops += ["b:" + gen.hx(w), "b:0d"]
            if rng.randrange(3) == 0:
                ops += ["b:" + gen.hx(gen.KEYS["up"])] * rng.randrange(1, 4) + ["b:" + gen.hx(gen.KEYS["down"])] * rng.randrange(0, 3)
        ses.append("%d %d 1 raw %s" % (rng.choice([16, 32]), rng.choice([4, 6, 7, 8, 12, 16, 32, 64]), ";".join(ops)))

    def hist_entries(field):
        raw = field.split("/")[0]
        b = bytes.fromhex(raw) if raw not in (".", "") else b""
        return b.split(b"\x00")[:-1] if b else []

    def oracle_ses(case, io):
        """every Enter: the retained entries must be hs_push (extracted HistSpec) of the entries before it and the line as submitted"""
        st = parse_steps(io)
        if st is None:
            return "crash / malformed output: " + io[:300]
        hcap = case.split(" ")[1]
        qs, at = [], []
        for k in range(1, len(st)):
            if sinkb(st[k]["sink"]).startswith("0d0a") and st[k]["r"] == "ok":
                prev = hist_entries(st[k - 1]["hist"])
                t = st[k - 1]["text"]
                t = "" if t == "." else t
                qs.append("%s %s" % (hcap, ";".join(["p:" + gen.hx(e) for e in prev] + ["p:" + t])))
                at.append(k)
        if not qs:
            return None
        for q, k, res in zip(qs, at, drv_run("histspec", qs)):
            want = res.split(" ")[-1].split(":")[1]
            got = ",".join(gen.hx(e) for e in hist_entries(st[k]["hist"])) or "-"
            if want != got:
                return "Enter at step %d on line %s: HistSpec.hs_push gives entries [%s], implementation retains [%s]" % (k, st[k - 1]["text"], want, got)
        return None

    # what is SHOWN on recall: the terminal row is prompt + recalled line, nothing of the line shown before (multi-byte entries over lines
    # with fewer bytes but more columns, and the reverse)
    vses = [gen.rand_session_w1(rng, 25) for _ in range(3000 if thorough else 1000)]
    for mb in gen.MB:
        for cur in (b"ab", b"hello", b"x"):
            for k_ in (1, 3):
                vses.append("24 32 1 raw b:%s;b:0d;b:%s;b:1b5b41;b:1b5b41;b:1b5b42;b:1b5b42" % (gen.hx(mb.encode("utf-8") * k_), gen.hx(cur)))
                vses.append("24 32 1 raw b:%s;b:0d;b:%s;b:0d;b:1b5b41;b:1b5b41;b:1b5b42" % (gen.hx(mb.encode("utf-8") * k_), gen.hx(cur)))
    try:
        _vimpl = core.run_engine(ck.binaries("hac", "debug"), "ses", vses)
        _vver = dict(zip(vses, drv_run("termchk", _vimpl)))
    except Broken as b:
        ck.broken(b)
        _vver = {}

    def oracle_shown(case, io):
        v = _vver.get(case)
        if v is None:
            v = drv_run("termchk", [io])[0]
        return None if v == "ok" else "what the terminal shows after a recall is not prompt + the recalled line: " + v

    ck.run_family(Family("session-recall-view", "ses", vses, oracle=oracle_shown, shrink=core.shrink_ops_line(4), decisive=False,
                         bulk_project=lambda outs: drv_run("termproj", outs), nontrivial=lambda c, o: "1b5b41" in c or "1b5b42" in c))
    abstract = make_abstract_oracle(ses, fields=("hist", "text"))
    ck.run_family(Family("session-recall", "ses", ses, oracle=lambda c, o: oracle_ses(c, o) or abstract(c, o), shrink=core.shrink_ops_line(4), decisive=False,
                         project=lambda o: [(s["text"], s["hist"]) for s in (parse_steps(o) or [])] or o,
                         nontrivial=lambda c, o: "1b5b41" in c and "0d" in c))
    return ck.finish(trusted=TB_COMMON, rule="history-ops: every sequence of <= depth operations over push a/b/e-acute/ab, older, newer for history sizes 0..10 plus random "
                     "long sequences with multi-byte and over-long lines; returned line, retained entries (raw buffer projected to the entry list) and position after "
                     "every op vs the extracted HistSpec; session-recall: random sessions with Up/Down plus lines with blanks at the ends, blank-only lines and suffix/prefix lines at boundary history sizes; at every Enter the "
                     "implementation's retained entries vs HistSpec.hs_push of its previous entries and the line as submitted (direct oracle), and implementation vs model. non-trivial = push and older both occur")


# ------------------------------------------------------------------ C17 every scalar
def c17(ck):
    import time
    rng = ck.rng
    thorough = ck.tier == "thorough"
    cps = list(gen.BOUNDARY_CPS) + [0x7F, 0x80, 0x7FF, 0x800, 0xFFFF, 0x10000, 0x10FFFF, 0xD7FF, 0xE000] + gen.WS_CPS + gen.LOWBYTE_CPS
    cps += [gen.rand_cp(rng, 1) for _ in range(5000 if thorough else 1200)]
    cases = []
    for c in cps:
        if 0xD800 <= c <= 0xDFFF:
            continue
        e = gen.hx(gen.enc(c))
        nb = gen.hx(gen.enc(rng.choice(gen.BOUNDARY_CPS)))
        cases += ["enc %d" % c, "pop %s%s" % (e, nb), "pop %s" % e, "cnt %s%s%s" % (nb, e, nb), "idx %s%s%s 1" % (nb, e, nb), "idx %s%s%s 2" % (nb, e, nb),
                  "idx %s%s 2" % (nb, e), "pfx %s%s %s%s" % (e, nb, e, e), "pfx %s%s%s %s%s%s" % (nb, e, nb, nb, e, e), "trim 2020%s20" % e, "trim %s2078" % e, "trim 20%s%s" % (e, e)]
    cases = sorted(set(cases))

    def oracle(case, io):
        p = case.split(" ")
        if p[0] == "enc":
            want = gen.hx(chr(int(p[1])).encode("utf-8"))
        elif p[0] == "pop":
            s = bytes.fromhex(p[1]).decode("utf-8")
            want = "%d %s" % (ord(s[0]), gen.hx(s[1:].encode("utf-8")))
        elif p[0] == "cnt":
            want = str(len(bytes.fromhex(p[1]).decode("utf-8")))
        elif p[0] == "idx":
            s = bytes.fromhex(p[1]).decode("utf-8")
            k = int(p[2])
            want = str(len(s[:k].encode("utf-8"))) if k < len(s) else "N"
        elif p[0] == "pfx":
            a, b = bytes.fromhex(p[1]).decode("utf-8"), bytes.fromhex(p[2]).decode("utf-8")
            k = 0
            while k < min(len(a), len(b)) and a[k] == b[k]:
                k += 1
            want = str(len(a[:k].encode("utf-8")))
        else:
            want = gen.hx(bytes.fromhex(p[1]).decode("utf-8").lstrip(" ").encode("utf-8"))
        return None if io == want else "Unicode/UTF-8 definition gives %s for `%s`, implementation gave %s" % (want, case, io)

    ck.run_family(Family("utils-boundary-random", "utils", cases, oracle=oracle, nontrivial=lambda c, o: True))
    # all scalar values inside the harness against Rust's char/str
    try:
        hb = ck.binaries("hac", "release" if thorough else "debug")
        t = time.time()
        step = 1 if thorough else 1
        outs = core.run_engine(hb, "utilsx", ["%d 16" % i for i in range(16)])
        tot = 0
        for o in outs:
            if not o.startswith("checked"):
                ck.report("utilsx-all-scalars", "crash", "enumeration crashed: " + o, {"case": "utilsx"})
                continue
            m = dict(kv.split("=") for kv in o.split(" "))
            tot += int(m["checked"])
            if m["bad"] != "-":
                cp = m["bad"].split(",")[0]
                ck.report("utilsx-all-scalars", "oracle", "scalar U+%s: encode/pop_front/count/index/prefix or decoder round trip disagrees with Rust's char/str" % cp,
                          {"case": "enc %d" % int(cp, 16), "engine": "utils"})
        ck.count("utilsx-all-scalars", tot, tot, exhaustive=True, seconds=time.time() - t, sample="every scalar value U+0020..U+10FFFF except U+007F and surrogates")
    except Broken as b:
        ck.broken(b)
    # typed, echoed, moved over, deleted, submitted, recalled, used as short option: sessions on boundary scalars
    ses = []
    for c in gen.BOUNDARY_CPS + gen.LOWBYTE_CPS + [0x30, 0x31, 0x39, 0x2E, 0x2B, 0x3D, 0x41, 0x5A, 0x61, 0x7A, 0x5F] + [gen.rand_cp(rng, 0) for _ in range(300 if thorough else 60)]:
        if c in (0x20, 0x7F, 0x22, 0x5C, 0x2D, 0x68) or 0xD800 <= c <= 0xDFFF:
            continue
        e = gen.hx(gen.enc(c))
        ses.append("16 32 1 raw b:78%s20%s61;b:1b5b44;b:1b5b44;b:1b5b43;b:08;b:%s;b:0d;b:1b5b41;b:0d;b:63202d%s0d" % (e, e, e, e))
        # moved over at the ENDS of the line: Right at the end and Left at the start do nothing, whatever the encoded length
        ses.append("16 32 1 raw b:78%s;b:1b5b43;b:1b5b43;b:61;b:1b5b44;b:62;%s;b:79;b:0d" % (e, ";".join(["b:1b5b44"] * 5)))
        # the character exactly fills the buffer; a second one is rejected and must change NOTHING (not the cursor either): Backspace then
        # deletes the first one, and `b` fits again
        ses.append("%d 32 1 raw b:61;b:%s;b:%s;b:08;b:62;b:0d" % (1 + len(e) // 2, e, e))
    def oracle_ses(case, io):
        st = parse_steps(io)
        if not st:
            return "malformed session output"
        if case.endswith(";b:08;b:62;b:0d") and " raw b:61;b:" in case:
            e = case.split(" raw b:61;b:")[1].split(";")[0]
            calls = [s["calls"] for s in st if s["calls"] != "-"]
            cp = ord(bytes.fromhex(e).decode("utf-8"))
            if calls != ["6162(-)"]:
                return ("scalar U+%04X: a rejected character (buffer exactly full) must change nothing - a c c(rejected) Backspace b Enter must dispatch `ab`, "
                        "handler saw %s" % (cp, calls))
            return None
        if ";b:1b5b43;b:1b5b43;b:61;" in case:
            e = case.split("b:78")[1].split(";")[0]
            calls = [s["calls"] for s in st if s["calls"] != "-"]
            cp = ord(bytes.fromhex(e).decode("utf-8"))
            if calls != ["7978%s6261(-)" % e]:
                return "scalar U+%04X was not moved over correctly at the ends of the line (x c Right Right a Left b Left*5 y Enter): handler saw %s, expected [7978%s6261(-)]" % (cp, calls, e)
            return None
        e = case.split("b:78")[1].split("20")[0]
        calls = [s["calls"] for s in st if s["calls"] != "-"]
        want0 = "78%s(V:%s61)" % (e, e)
        cp = ord(bytes.fromhex(e).decode("utf-8"))
        want2 = "63(S:%d)" % cp
        if len(calls) != 3 or calls[0] != want0 or calls[1] != want0 or calls[2] != want2:
            return "scalar U+%04X did not survive typing/editing/recall/short option: handler saw %s, expected [%s, %s, %s]" % (cp, calls, want0, want0, want2)
        return None
    ck.run_family(Family("session-scalars", "ses", ses, oracle=oracle_ses, nontrivial=lambda c, o: True,
                         bulk_project=lambda outs: drv_run("termproj", outs)))
    # the scalar as a short option NO declaration knows (derived parser): the library itself encodes it back into the error line
    # `unexpected option: -c` (process_error), alone and at the end of a cluster
    declgen, sets = ensure_decls(ck)
    # a command that declares arguments (a unit variant does not look at its arguments at all)
    k0, nm0 = next((k, declgen.q(declgen.cmd_name(c_))) for k, s_ in enumerate(sets) for e in declgen.set_enums(s_)[:1] for c_ in e["cmds"]
                   if c_["args"] and c_["sub"] is None and not any(declgen.arg_short(a) for a in c_["args"] if a["kind"] != "pos" and declgen.arg_short(a) not in ("v", "j", "i", "n", "f")))
    dses, want = [], {}
    for c in gen.BOUNDARY_CPS + gen.LOWBYTE_CPS + [gen.rand_cp(rng, 0) for _ in range(200 if thorough else 40)]:
        if c in (0x20, 0x7F, 0x22, 0x5C, 0x2D, 0x68) or 0xD800 <= c <= 0xDFFF:
            continue
        for tok in ("-" + chr(c), "-" + chr(c) + chr(c)):
            case = lines_to_session(k0, [nm0 + " " + tok], cap=60)
            dses.append(case)
            want[case] = gen.hx(("-" + chr(c)).encode("utf-8"))

    def oracle_unexp(case, io):
        es = enter_steps(case, io)
        if es is None:
            return "crash / malformed output: " + io[:300]
        for line, st in es:
            if st is None or st["calls"] != "-":
                return "a line with an undeclared short option was not rejected: " + str(st and st["calls"])
            if want[case] not in sinkb(st["sink"]):
                return "the error line for the undeclared short option does not name it (-c with the scalar encoded as typed, bytes %s): sink %s" % (want[case], sinkb(st["sink"]))
        return None

    # the scalar as the value of a `char`-typed positional and option of a derived command (FromArgument for char): accepted, whatever its
    # encoded length
    kc = next((k for k, s_ in enumerate(sets) if s_["kind"] == "enum" and any(c_["variant"] == "Sep" for c_ in s_["enum"]["cmds"])), None)
    if kc is not None:
        cses = []
        for c in gen.BOUNDARY_CPS + [0x41, 0x7A, 0x30] + [gen.rand_cp(rng, 0) for _ in range(100 if thorough else 30)]:
            if c in (0x20, 0x7F, 0x22, 0x5C, 0x2D) or 0xD800 <= c <= 0xDFFF or c < 0x20:
                continue
            cses.append(lines_to_session(kc, ["sep " + chr(c), "sep x --alt " + chr(c), "sep " + chr(c) + chr(c)], cap=60))

        def oracle_chararg(case, io):
            es = enter_steps(case, io)
            if es is None:
                return "crash / malformed output: " + io[:300]
            for i_, (line, st) in enumerate(es):
                if st is None:
                    return "missing step"
                if i_ < 2 and st["calls"] == "-":
                    return "`%s`: a single scalar given to a char argument was rejected: %s" % (line, sinkb(st["sink"])[:120])
                if i_ == 2 and st["calls"] != "-":
                    return "`%s`: two scalars were accepted as one char" % line
            return None

        ck.run_family(Family("derived-char-argument", "ses", cses, oracle=oracle_chararg, nontrivial=lambda c, o: True,
                             project=lambda o: [(x["r"], x["calls"], sinkb(x["sink"])) for x in (parse_steps(o) or [])] or o))
    ck.run_family(Family("derived-unexpected-short-option", "ses", dses, oracle=oracle_unexp, nontrivial=lambda c, o: True,
                         project=lambda o: [(x["r"], x["calls"], sinkb(x["sink"])) for x in (parse_steps(o) or [])] or o))
    return ck.finish(trusted=TB_COMMON + ["Python's and Rust's own UTF-8 encoders/decoders as independent oracles"],
                     rule="utils-boundary-random: boundary and random scalars of every encoded length next to neighbours of other lengths through encode_utf8, "
                     "char_pop_front, char_count, char_byte_index, common_prefix_len, trim_start (implementation vs model vs Python's codec); utilsx: ALL scalar values "
                     "inside the harness against Rust's char/str; session-scalars: each scalar typed in a name and an argument, moved over, deleted, retyped, submitted, recalled, "
                     "resubmitted, used as a short option")


# ------------------------------------------------------------------ C06 terminal view
def term_oracle(cases, impl_outs):
    res = drv_run("termchk", impl_outs)
    return dict(zip(cases, res))


def width1_session(rng, nops):
    """sessions restricted to what C06 quantifies over: printable width-1 characters (no wide/zero-width: we use ASCII, Latin, Greek, arrows)"""
    return gen.rand_session(rng, nops)


def c06(ck):
    rng = ck.rng
    thorough = ck.tier == "thorough"
    n = 8000 if thorough else 4000
    corpus = [l.strip() for l in open(os.path.join(core.ROOT, "corpus", "C06", "sessions.txt")) if l.strip() and not l.startswith("#")]
    ses = corpus + [gen.rand_session_w1(rng, rng.choice([10, 25, 50])) for _ in range(n)]
    # recall scenarios: lines entered, then a line retyped (equal to / prefix of / different from an entry), cursor moved inside, Up / Down, more keys
    for _ in range(n // 5):
        words = [rng.choice([b"echo a", b"nl", "λ→".encode(), b"ab", b"abc", b"x y", "éé".encode()]) for _ in range(rng.randrange(1, 4))]
        ops = []
        for w in words:
            ops += ["b:" + gen.hx(w), "b:0d"]
        cur = rng.choice(words + [words[-1], words[-1][:1], b"zz"])
        ops.append("b:" + gen.hx(cur))
        ops += ["b:" + gen.hx(gen.KEYS["left"])] * rng.randrange(0, 4)
        for _ in range(rng.randrange(1, 6)):
            ops.append(rng.choice(["b:" + gen.hx(gen.KEYS["up"]), "b:" + gen.hx(gen.KEYS["up"]), "b:" + gen.hx(gen.KEYS["down"]), "b:" + gen.hx(gen.KEYS["left"]),
                                   "b:58", "b:" + gen.hx(gen.KEYS["bs"]), "w:s6f", "p:%d" % rng.randrange(4)]))
        ses.append("%d %d %d raw %s" % (rng.choice([8, 16, 32]), rng.choice([0, 8, 16, 32, 64]), rng.randrange(4), ";".join(ops)))
    ses += gen.long_sessions(rng, 8 if thorough else 3)        # a row of more than 255 columns, the cursor taken back over column 256
    # prompts of the same BYTE length and different widths (indices 4 and 5), changed back and forth with a line being edited, the cursor
    # at the end / inside / at the start; and prompts of the same width and different byte lengths
    for start_, seq_ in ((4, (5, 4)), (5, (4, 5)), (1, (4, 1)), (4, (1, 5)), (2, (3, 2))):
        for line_ in ("736574", "6c6564206f6e", "", "c3a9cebb"):
            for lefts_ in (0, 1, 9):
                ses.append("16 32 %d raw %s%s;p:%d;b:78;p:%d;b:08;w:s6f;b:0d" % (start_, ("b:" + line_ + ";") if line_ else "", ";".join(["b:1b5b44"] * lefts_) or "b:1b5b43", seq_[0], seq_[1]))
    ses += [with_short_writes(rng, gen.rand_session_w1(rng, 25)) for _ in range(n // 8)]        # a sink that takes a few bytes per write call
    ses = list(dict.fromkeys(ses))
    try:
        hb = ck.binaries("hac", "debug")
        impl = core.run_engine(hb, "ses", ses)
        verdict = dict(zip(ses, drv_run("termchk", impl)))
    except Broken as b:
        ck.broken(b)
        return ck.finish(trusted=TB_COMMON, rule="build broke")

    def oracle(case, io):
        v = verdict.get(case)
        if v is None:
            v = drv_run("termchk", [io])[0]
        return None if v == "ok" else "terminal emulator: current row / cursor column differ from prompt + line / editor cursor: " + v

    ck.run_family(Family("session-view", "ses", ses, oracle=oracle, shrink=core.shrink_ops_line(4), decisive=False,
                         bulk_project=lambda outs: drv_run("termproj", outs),
                         nontrivial=lambda c, o: ("w:" in c or ";p:" in c or "1b5b44" in c or "09" in c)))
    # bounded-exhaustive: EVERY sequence of up to `depth` operations over a 13-letter alphabet at tiny buffer sizes (all interleavings at small scale)
    import itertools
    alpha = ["b:68", "b:c3a9", "b:20", "b:" + gen.hx(gen.KEYS["left"]), "b:" + gen.hx(gen.KEYS["right"]), "b:08", "b:" + gen.hx(gen.KEYS["up"]),
             "b:" + gen.hx(gen.KEYS["down"]), "b:09", "b:0d", "w:s6f0a6b", "w:l", "p:2"]
    depth = 5 if thorough else 4
    xses = []
    for cfg in (["4 7 1 raw", "6 0 3 raw"] if thorough else ["4 7 1 raw"]):
        for d in range(1, depth + 1):
            for ops in itertools.product(alpha, repeat=d):
                xses.append(cfg + " " + ";".join(ops))
    try:
        ximpl = core.run_engine(hb, "ses", xses)
        verdict.update(dict(zip(xses, drv_run("termchk", ximpl))))
    except Broken as b:
        ck.broken(b)
        return ck.finish(trusted=TB_COMMON, rule="build broke")
    ck.run_family(Family("session-exhaustive-depth%d" % depth, "ses", xses, oracle=oracle, shrink=core.shrink_ops_line(4), decisive=False, exhaustive=False,
                         bulk_project=lambda outs: drv_run("termproj", outs),
                         nontrivial=lambda c, o: True))
    # derived command sets: completion inside the line (prefix of a name, blanks after the cursor, Left moves, Tab, more typing, writes)
    declgen, sets = ensure_decls(ck)
    dses = []
    for k, s_ in enumerate(sets):
        vis = declgen.visible_names(s_) + ["help"]
        for _ in range(40 if thorough else 12):
            base = rng.choice(vis)
            w = base[:rng.randrange(1, len(base) + 1)]
            text = (" " * rng.choice([0, 0, 1]) + w + " " * rng.choice([0, 0, 1, 2, 3])).encode("utf-8")
            ops = ["b:" + gen.hx(text)] + ["b:" + gen.hx(gen.KEYS["left"])] * rng.choice([0, 0, 1, 2, 3, 4]) + ["b:09"]
            for _ in range(rng.randrange(0, 5)):
                ops.append(rng.choice(["b:09", "b:" + gen.hx(gen.KEYS["left"]), "b:" + gen.hx(gen.KEYS["right"]), "b:" + gen.hx(gen.KEYS["bs"]), "b:20",
                                       "b:" + gen.hx(rng.choice(gen.W1_CHARS)), "w:s6869", "w:l6f6b", "p:%d" % rng.randrange(4), "b:0d"]))
            capx = len(text) + rng.choice([0, 1, 2, 3, 5, 8, 30])
            dses.append("%d 16 %d d%d %s" % (capx, rng.randrange(4), k, ";".join(ops)))
    # submitted lines on derived sets: every kind of error line the library prints (unknown command, unexpected short / long option,
    # unexpected argument, missing argument, unparsable value), help, accepted commands - then typing goes on: the prompt must stand on a
    # fresh line after each of them
    for k, s_ in enumerate(sets[:12] if not thorough else sets):
        nm0 = declgen.q((declgen.all_names(s_) or ["x"])[0])
        lines = [declgen.rand_decl_line(rng, s_) for _ in range(3)] + [nm0 + " -x", nm0 + " --nope", "nosuch", nm0 + " a b c d e f", nm0 + " -\u00e9"]
        for e in declgen.set_enums(s_)[:2]:
            for c_ in e["cmds"][:3]:
                lines += declgen.missing_arg_lines(rng, c_)[:2] + declgen.value_edge_lines(rng, c_)[:3]
        for i in range(0, len(lines), 6):
            dses.append(lines_to_session(k, lines[i:i + 6], cap=100) + ";b:6162;b:1b5b44;w:s6f;b:0d")
    dses = sorted(set(dses))
    try:
        dimpl = core.run_engine(hb, "ses", dses)
        verdict.update(dict(zip(dses, drv_run("termchk", dimpl))))
    except Broken as b:
        ck.broken(b)
        return ck.finish(trusted=TB_COMMON, rule="build broke")
    ck.run_family(Family("derived-view", "ses", dses, oracle=oracle, shrink=core.shrink_ops_line(4), decisive=False,
                         bulk_project=lambda outs: drv_run("termproj", outs),
                         nontrivial=lambda c, o: True))
    return ck.finish(trusted=TB_COMMON + ["Spec/Terminal.v: unbounded-width line emulator, width-1 characters, no auto-wrap (as the property's quantifier says)"],
                     rule="random sessions (all keys, Cli::write with split texts, set_prompt, handler output and handler prompt changes, four prompts incl. empty and multi-byte, "
                     "buffer sizes 0..64) over width-1 characters, plus EVERY operation sequence up to depth 4 (5 in the thorough tier) over a 13-letter alphabet (two characters, blank, arrows, Backspace, "
                     "Up, Down, Tab, Enter, two writes, set_prompt) at a 4-byte line buffer and 7-byte history; after EVERY call the implementation's sink bytes are fed to the extracted emulator and its current row and cursor "
                     "column are compared with the implementation's own prompt + editor text and cursor (hooks); implementation and model are compared on result, line, cursor, prompt and the SCREEN "
                     "their bytes produce (visible row, column), not on the bytes themselves, so output that paints the same screen differently is not reported. derived-view: the same on "
                     "generated derived command sets (prefix of a name, blanks after the cursor, Left moves, Tab inside the line, further keys, writes, Enter). non-trivial = "
                     "contains an API write, a prompt change, a cursor move or a completion")


# ------------------------------------------------------------------ C15 flushed
def c15(ck):
    rng = ck.rng
    thorough = ck.tier == "thorough"
    n = 8000 if thorough else 4000
    ses = [gen.rand_session(rng, rng.choice([10, 30])) for _ in range(n)]
    # a sink with a small transmit buffer (`write` takes at most 1 / 2 / 4 / 7 bytes per call, the rest is offered again): the bytes are the
    # same, and everything must still be flushed when the call returns
    for i in range(n // 4):
        head, ops = gen.rand_session(rng, rng.choice([10, 30])).rsplit(" ", 1)
        ses.append(head + " y:%d;" % rng.choice([1, 2, 4, 7]) + ops)

    def oracle(case, io):
        st = parse_steps(io)
        if st is None:
            return "malformed session output"
        for k, s_ in enumerate(st):
            if s_["r"] == "ok" and s_["sink"] != "-":
                ops = s_["sink"].split(",")
                if ops[-1] != "F":
                    return "call %d returned Ok with unflushed output: sink calls %s" % (k, s_["sink"])
        return None

    def unflushed(o):
        st = parse_steps(o)
        if st is None:
            return o
        return [(s_["r"], 0 if s_["sink"] == "-" or s_["sink"].split(",")[-1] == "F" else 1, s_["sink"] == "-") for s_ in st]

    ck.run_family(Family("session-flush", "ses", ses, oracle=oracle, project=unflushed, shrink=core.shrink_ops_line(4),
                         nontrivial=lambda c, o: "0d" in c or "w:" in c))
    # the same rule AFTER a failed call: a sink call fails once somewhere (any key, Cli::write, set_prompt), then the session goes on with a
    # working sink - every later call that returns Ok and wrote something must still end with a flush. Fault positions are sink-call
    # numbers, so this family is judged by the oracle alone.
    fses = []
    for _ in range(6000 if thorough else 2500):
        pre = gen.rand_session_ops(rng, rng.randrange(1, 10))
        key = rng.choice(["b:0d", "b:0d", "b:61", "b:09", "b:1b5b41", "b:08", "b:1b5b44", "w:s6869", "p:2", "b:" + gen.hx(b"do sab p2 xq\r"), "b:" + gen.hx(b"echo a\r")])
        post = gen.rand_session_ops(rng, rng.randrange(0, 5)) + rng.sample(["w:s6869,s0a", "p:1", "b:61", "b:0d", "b:1b5b41", "w:"], 4) + ["b:78", "b:0d"]
        fses.append("%d %d %d raw %s" % (rng.choice([8, 16, 24]), rng.choice([0, 7, 16, 33]), rng.randrange(4),
                                         ";".join(pre + ["x:%d:once" % rng.randrange(5), key] + post)))
    ck.run_family(Family("flush-after-fault", "ses", fses, oracle=oracle, shrink=core.shrink_ops_line(4), impl_only=True, decisive=False,
                         nontrivial=lambda c, o: "err" in o))
    return ck.finish(trusted=TB_COMMON, rule="random sessions incl. handler output, help, Cli::write, set_prompt; after every API call that returned Ok the last sink call must be a flush "
                     "(or there was no sink call); projection = (result, unflushed?, silent?) per call vs model. non-trivial = contains an Enter or an API write")


# ------------------------------------------------------------------ C14 failing sink
FAULT_CORPUS = [
    "16 32 1 raw b:6563686f206162630d",
    "16 32 1 raw b:6162;b:1b5b44;b:58;b:08;b:1b5b43;b:0d",
    "16 32 1 raw b:6c6e20610d;b:1b5b41;b:1b5b41;b:1b5b42;b:1b5b42",
    "16 32 1 raw b:6865;b:09;b:0d",
    "24 32 1 raw b:22c3a92220226220632220640d",
    "16 32 1 raw b:6e6c20610d",
    "16 32 1 raw b:70726f6d707420620d",
    "16 32 1 raw b:6162;b:1b5b44;w:s68690a,s78",
    "16 32 1 raw b:6162;b:1b5b44;p:2",
    "16 32 1 raw b:68656c700d",
    "16 32 1 raw b:68656c7020780d",
    "16 32 1 raw b:78202d680d",
    "16 32 2 raw b:6d696420610d",
    "4 4 0 raw b:61626364;b:65;b:0d;b:1b5b41",
    # Tab with the cursor INSIDE the line (the completion goes to the end of the text), with blanks after the cursor, with an argument
    "16 32 1 raw b:6865;b:1b5b44;b:09;b:0d",
    "16 32 1 raw b:68652020;b:1b5b44;b:1b5b44;b:1b5b44;b:09;b:0d",
    "16 32 1 raw b:206865;b:1b5b44;b:09;b:78;b:0d",
    # a handler that writes, changes the prompt and is rejected by a hand-written processor (odd history size); literal format strings
    "24 33 1 raw b:646f207361622070322078710d",
    "24 33 1 raw b:646f2067312073780d;b:1b5b41;b:08;b:0d",
    # recall of a line into a smaller room, edit, resubmit; Down past the newest
    "6 32 1 raw b:6162630d;b:78;b:1b5b41;b:1b5b44;b:08;b:0d;b:1b5b41;b:1b5b42;b:1b5b42",
    # Enter sent as a pair
    "16 32 1 raw b:61620d0a;b:63640a0d;b:0d0a",
    # a sink that takes three bytes per write call: every partial write and every flush of echo, recall, handler output, error line and help fails in turn
    "16 32 1 raw y:3;b:6563686f206162630d;b:1b5b41;b:08;b:0d;b:6e6f70650d;b:68656c700d",
    # the sink's error reports another embedded_io::ErrorKind (Unsupported, BrokenPipe, WriteZero, Interrupted): handed back all the same
    "16 32 1 raw k:1;b:6563686f206162630d;b:1b5b41;b:08;b:1b5b44;b:09;b:0d;b:6e6f70650d;w:s6869;p:2",
    "16 32 1 raw k:2;b:6162;b:1b5b44;b:58;b:0d",
    "16 32 1 raw k:3;b:68656c700d;b:78202d680d",
    "16 32 1 raw k:5;b:6563686f206162630d;b:1b5b41;b:0d",
]


def c14(ck):
    rng = ck.rng
    thorough = ck.tier == "thorough"
    try:
        hb = ck.binaries("hac", "debug")
    except Broken as b:
        ck.broken(b)
        return ck.finish(trusted=TB_COMMON, rule="build broke")
    declgen, sets = ensure_decls(ck)
    def dl(k, line, cap=60):
        return "%d 64 1 d%d b:%s;b:0d" % (cap, k, gen.hx(line.encode("utf-8")))
    decl_corpus = [dl(1, "help"), dl(1, "help aaa"), dl(1, "help bbb"), dl(1, "help status"), dl(1, "help nope"), dl(1, "bbb"), dl(1, "nope"),
                   dl(2, "help test"), dl(2, "help base1 get cmd"), dl(2, "base1 -l 3 get -h"), dl(2, "test a"), dl(2, "test -j t a b"),
                   dl(2, "base1 --level 300 set x"), dl(2, "base2 num 5 xy"), dl(2, "test a b c d"), dl(2, "test --nope"), dl(2, "test -Z"),
                   dl(0, "ge") + ";b:09", dl(3, "help опция"),
                   "40 64 1 d0 b:67652020;b:1b5b44;b:1b5b44;b:1b5b44;b:09;b:0d", "40 64 1 d4 b:6578;b:1b5b44;b:09;b:0d"]
    for k, s_ in enumerate(sets):
        if thorough or k < 23:
            # every write the generated help code makes (list of commands, every command's own help, nested sub-command help: usage line
            # with [COMMAND] / <COMMAND>, arguments, options, sub-command list) is failed once and for good
            decl_corpus.append(dl(k, "help"))
            for e in declgen.set_enums(s_):
                for c_ in e["cmds"][:4]:
                    nm_ = declgen.q(declgen.cmd_name(c_))
                    decl_corpus.append(dl(k, "help " + nm_, cap=80))
                    if c_["sub"] is not None:
                        for sc in c_["sub"]["enum"]["cmds"][:2]:
                            decl_corpus.append(dl(k, nm_ + " " + declgen.q(declgen.cmd_name(sc)) + " --help", cap=80))
            if k >= 4:
                decl_corpus.append(dl(k, declgen.rand_decl_line(rng, s_)))
    decl_corpus = list(dict.fromkeys(decl_corpus))
    base = list(FAULT_CORPUS) + decl_corpus + [gen.rand_session(rng, 12) for _ in range(150 if thorough else 80)]
    base_out = core.run_engine(hb, "ses", base)
    # the model's own fault-free run: fault positions are sink-call numbers, so model and implementation can only be compared under
    # a fault where they make the same sink calls in that step (a re-chunked but equivalent implementation is then checked by the oracle alone)
    try:
        base_model = drv_run("ses", base)
    except Broken:
        base_model = [None] * len(base)
    cases = []
    cases_only_impl = []
    nofault = {}
    for b, o, mo in zip(base, base_out, base_model):
        st = parse_steps(o)
        if st is None:
            continue
        mst = parse_steps(mo) if mo else None
        head, ops = b.split(" ", 4)[:4], b.split(" ", 4)[4].split(";")
        # expand multi-byte b: ops to one byte per op so that step k = op k-1 (a `y:` op is no step: it only sets the sink's mode and stays in front)
        flat = []
        sink_mode = None
        for op in ops:
            if op.startswith("b:"):
                hx_ = op[2:]
                if hx_ == ".":
                    continue              # an empty read: no call of process_byte, no step
                flat += ["b:" + hx_[i:i + 2] for i in range(0, len(hx_), 2)]
            elif op.startswith("y:") or op.startswith("k:"):
                sink_mode = op if sink_mode is None else sink_mode + ";" + op
            else:
                flat.append(op)
        # sink calls made by each step (after build)
        calls = [0 if s_["sink"] == "-" else len(s_["sink"].split(",")) for s_ in st]
        for k in range(1, len(st)):
            for j in range(calls[k]):
                for mode in ("once", "perm"):
                    pre_ = [sink_mode] if sink_mode else []
                    c = " ".join(head) + " " + ";".join(pre_ + flat[:k - 1] + ["x:%d:%s" % (j, mode), flat[k - 1], "x:off", "b:78", "b:0d"])
                    same_calls = mst is not None and len(mst) == len(st) and all(
                        [x[0] for x in a["sink"].split(",")] == [x[0] for x in m_["sink"].split(",")] for a, m_ in zip(st[:k + 1], mst[:k + 1]))
                    (cases if same_calls else cases_only_impl).append(c)
                    nofault[c] = ((st[k - 1]["text"], st[k - 1]["cur"]), (st[k]["text"], st[k]["cur"]), k, False)
                    if flat[k - 1] in ("b:0d", "b:0a"):
                        # the failed key is a line terminator: the other terminator right after it still belongs to the same Enter
                        # (decoding depends on the byte sequence only, not on whether the sink worked)
                        other = "b:0a" if flat[k - 1] == "b:0d" else "b:0d"
                        c2 = " ".join(head) + " " + ";".join(pre_ + flat[:k - 1] + ["x:%d:%s" % (j, mode), flat[k - 1], "x:off", other, "b:78", "b:0d"])
                        (cases if same_calls else cases_only_impl).append(c2)
                        nofault[c2] = (nofault[c][0], nofault[c][1], k, True)

    def oracle(case, io):
        st = parse_steps(io)
        if st is None:
            return "malformed session output / crash: " + io[:200]
        before, after_ok, k, paired = nofault[case]
        f = st[k]
        if paired and k + 1 < len(st):
            # step k+1 is the second byte of a CR LF / LF CR pair whose first byte was being handled when the sink failed
            pb = st[k + 1]
            if pb["calls"] != "-" or pb["sink"] != "-" or (pb["text"], pb["cur"]) != (f["text"], f["cur"]):
                return ("the second byte of a CR LF / LF CR pair, arriving after the sink failed during the first, was not read as part of the same Enter: "
                        "it wrote %s, dispatched %s and left the line %s at %s (was %s at %s)" % (pb["sink"], pb["calls"], pb["text"], pb["cur"], f["text"], f["cur"]))
            st = st[:k + 1] + st[k + 2:]
        for k_, s_ in enumerate(st):
            if s_["r"] == "err" and "XW" not in s_["sink"] and "XF" not in s_["sink"]:
                return "call %d returned Err although no sink call failed in it; sink calls: %s" % (k_, s_["sink"])
        if f["r"] != "err":
            if "XW" in f["sink"] or "XF" in f["sink"]:
                return "sink call failed during call %d but the call returned Ok (error swallowed); sink calls: %s" % (k, f["sink"])
            return None
        if (f["text"], f["cur"]) not in (before, after_ok, (".", "0")):
            return "after the failed call the line is %s with the cursor at %s: neither as before (%s at %s), nor as the key would have left it (%s at %s), nor empty" % (
                f["text"], f["cur"], before[0], before[1], after_ok[0], after_ok[1])
        # later input is decoded normally: `x` typed with a working sink goes into the line at the cursor (unless the buffer is full) -
        # provided the bytes received so far do not leave the decoder inside an ESC [ sequence (then `x` is its final byte)
        in_csi, last_b = False, 0
        for op in case.split(" ", 4)[4].split(";"):
            if op == "x:off":
                break
            if op.startswith("b:") and op[2:] != ".":
                for b_ in bytes.fromhex(op[2:]):
                    if in_csi:
                        in_csi = not (0x40 <= b_ <= 0x7E)
                    elif last_b == 0x1B and b_ == 0x5B:
                        in_csi = True
                    last_b = b_
        if not in_csi and (k + 1 < len(st) - 1 or (k + 1 < len(st) and st[k + 1] is not st[-1])):
            nx = st[k + 1]
            cap = int(case.split(" ")[0])
            ft = "" if f["text"] == "." else f["text"]
            try:
                chars = bytes.fromhex(ft).decode("utf-8")
                cur = int(f["cur"])
                want = (chars[:cur] + "x" + chars[cur:]).encode("utf-8").hex() if len(ft) // 2 + 1 <= cap else ft
                if nx["r"] == "ok" and (nx["text"] if nx["text"] != "." else "") != want:
                    return "CLI not usable after the failure: `x` typed with a working sink leaves the line %s (expected %s)" % (nx["text"], want or ".")
            except (UnicodeDecodeError, ValueError):
                pass
        # later: typing x and Enter with a working sink dispatches only typed text
        last = st[-1]
        if last["r"] != "ok":
            return "CLI not usable after the failure: later Enter returned error with a working sink"
        typed = f["text"]
        if last["calls"] != "-":
            name = last["calls"].split("(")[0].split("{")[0]
            raw = bytes.fromhex(name) if name != "." else b""
            if b"\x00" in raw:
                return "later Enter dispatched a command name containing NUL (tokenised buffer leaked): " + last["calls"]
        return None

    ck.run_family(Family("fault-enumeration", "ses", cases, oracle=oracle, shrink=None, decisive=False,
                         project=lambda o: [(s_["r"], s_["text"], s_["calls"]) for s_ in (parse_steps(o) or [])] or o,
                         nontrivial=lambda c, o: "err" in o, exhaustive=True))
    # construction itself against a failing sink: Cli::new and the builder (every prompt, both constructors), every sink call they make
    bcases = []
    for pi in range(4):
        for capb in (7, 8):
            for j in range(3):
                for mode in ("once", "perm"):
                    bcases.append("%d 16 %d raw X:%d:%s;b:61;b:0d" % (capb, pi, j, mode))

    def oracle_build(case, io):
        st = parse_steps(io)
        if st is None:
            return "malformed session output / crash: " + io[:200]
        for k_, s_ in enumerate(st):
            if s_["r"] != "err" and ("XW" in s_["sink"] or "XF" in s_["sink"]):
                return "sink call failed during call %d (%s) but the call returned Ok (error swallowed); sink calls: %s" % (
                    k_, "construction" if k_ == 0 else "after construction", s_["sink"])
        return None

    ck.run_family(Family("build-faults", "ses", bcases, oracle=oracle_build, shrink=None, decisive=False, impl_only=True,
                         nontrivial=lambda c, o: "err" in o, exhaustive=True))
    if cases_only_impl:
        ck.run_family(Family("fault-enumeration-oracle-only", "ses", cases_only_impl, oracle=oracle, shrink=None, decisive=False, impl_only=True,
                             nontrivial=lambda c, o: "err" in o, exhaustive=True))
        ck.notes.append("%d fault cases checked by the oracle only: the implementation's sink calls in the faulted step differ from the model's (same bytes, other chunking)" % len(cases_only_impl))
    return ck.finish(level="proof", trusted=TB_COMMON, rule="for every scenario of the corpus (typing, editing, recall, completion, quoted arguments, handler output of several kinds, "
                     "prompt change, Cli::write, set_prompt, help, help <cmd>, -h, tight buffers) and random short sessions: EVERY sink call of EVERY step fails once / permanently, "
                     "then `x` Enter with a working sink. Oracle on the implementation: the call returns Err iff a sink call failed in it; the line AND its cursor afterwards are as before / as the key "
                     "would have left them (from the fault-free run of the implementation itself) / empty; the later Enter succeeds. Result, line and later dispatches also compared with the model. "
                     "build-faults: the constructors (builder and the deprecated Cli::new) against a sink that fails at each of their calls. non-trivial = some call returned Err")


# ------------------------------------------------------------------ C01 dispatch
def c01(ck):
    rng = ck.rng
    thorough = ck.tier == "thorough"
    n = 10000 if thorough else 5000
    ses = [gen.rand_session(rng, rng.choice([15, 40]), api=False) for _ in range(n)]
    ses += gen.long_sessions(rng, 12 if thorough else 4, api=False)        # a line, a cursor, a history entry beyond 255

    def proj(o):
        st = parse_steps(o)
        if st is None:
            return o
        # dispatch steps: the call, "line empty afterwards", the prompt in force and the bytes shown (concatenated: how they are chunked
        # into sink calls is no business of C01); other steps: line and cursor
        return [(s_["calls"], s_["text"] == ".", s_["p"], sinkb(s_["sink"])) if s_["calls"] != "-" else (s_["calls"], s_["text"], s_["cur"]) for s_ in st]

    def oracle(case, io):
        st = parse_steps(io)
        if st is None:
            return "malformed session output / crash: " + io[:200]
        # flatten bytes to know which step is which byte
        ops = case.split(" ", 4)[4].split(";")
        for s_ in st:
            if s_["calls"] != "-" and "+" in s_["calls"]:
                return "handler invoked more than once by one byte: " + s_["calls"]
            if s_["calls"] != "-" and (s_["text"] != "." or s_["cur"] != "0"):
                return "line not empty after a dispatch: text=%s cursor=%s" % (s_["text"], s_["cur"])
        return None

    abstract = make_abstract_oracle(ses)
    ck.run_family(Family("session-dispatch", "ses", ses, oracle=lambda c, o: oracle(c, o) or abstract(c, o), project=proj, shrink=core.shrink_ops_line(4),
                         nontrivial=lambda c, o: "(" in o))
    # the same with a sink that fails at arbitrary calls (once or for good) and API calls in between: whatever fails, one Enter calls the handler
    # at most once and the line is empty after a dispatch - so nothing is dispatched a second time by the next Enter
    fses = [gen.rand_session(rng, rng.choice([15, 40]), api=True, faults=True) for _ in range(n // 2)]
    # oracle only: fault positions are sink-call numbers, so an implementation that chunks its output differently (same bytes, same screen)
    # fails at another point of the session than the model - a comparison with the model would raise false alarms here
    ck.run_family(Family("session-dispatch-faults", "ses", fses, oracle=oracle, decisive=False, shrink=core.shrink_ops_line(4), impl_only=True,
                         nontrivial=lambda c, o: "(" in o and "X" in o))
    # derived command sets: what is dispatched after a COMPLETION (names with multi-byte characters, tight buffers, blanks and the cursor
    # moved back before Tab, Backspace / Left / insertions right after it) - the tokens must be those of the line as it stands
    declgen, sets = ensure_decls(ck)
    dses = tab_sweep_sessions(declgen, sets)
    ck.run_family(Family("derived-completion-dispatch", "ses", dses, oracle=oracle, project=proj, shrink=core.shrink_ops_line(4),
                         nontrivial=lambda c, o: "(" in o))
    return ck.finish(trusted=TB_COMMON, rule="random sessions mixing characters of every encoded length, Backspace, Left/Right, Up/Down, Tab and all four terminators at buffer sizes 0..64 "
                     "(both buffers); handler-call log (name + classified arguments) per byte, line-empty after dispatch, implementation vs model; direct oracle: at most one "
                     "call per byte and the line is empty afterwards. non-trivial = at least one dispatch")


# ------------------------------------------------------------------ C03 no panic
def c03(ck):
    rng = ck.rng
    thorough = ck.tier == "thorough"
    n = 12000 if thorough else 5000
    ses = []
    for i in range(n):
        cap = rng.randrange(0, 65) if i % 3 else rng.choice([0, 1, 2, 3, 4])
        hcap = rng.randrange(0, 65) if i % 5 else rng.choice([0, 1, 2, 3, 4])
        ops = gen.rand_session_ops(rng, rng.choice([20, 60]), api=True, malformed=True)
        ses.append("%d %d %d raw %s" % (cap, hcap, rng.randrange(4), ";".join(ops)))
    ses += gen.long_sessions(rng, 12 if thorough else 4)        # sizes beyond 255: a narrower integer than usize somewhere overflows only there
    # every byte as the byte after ESC [ (with and without parameter bytes, in the middle of a line): final bytes 0x40..0x7E, parameter and
    # intermediate bytes, controls and high bytes inside the sequence - a table indexed by `byte - b'A'` and the like shows at one value only
    for f in range(256):
        ses.append("8 8 1 raw b:6162;b:1b5b%02x;b:78;b:1b5b323b%02x;b:79;b:0d;b:1b5b41" % (f, f))

    def oracle(case, io):
        st = parse_steps(io)
        if st is None:
            return "crash / malformed output: " + io[:300]
        for s_ in st:
            if not py_valid(s_["text"]):
                return "editor text is not valid UTF-8: " + s_["text"]
        return None

    ck.run_family(Family("session-malformed-debug", "ses", ses, oracle=oracle, shrink=core.shrink_ops_line(4), decisive=False,
                         project=lambda o: [(s_["r"], s_["text"], s_["cur"], s_["hist"], s_["calls"]) for s_ in (parse_steps(o) or [])] or o,
                         nontrivial=lambda c, o: True))
    # derived command sets (code emitted by the proc-macros: parsers, help, completion), any buffer sizes, malformed bytes between the lines
    declgen, sets = ensure_decls(ck)
    dses = []
    for k, s_ in enumerate(sets):
        allv = declgen.all_names(s_)
        for j in range(60 if thorough else 14):
            ops = []
            for _ in range(rng.choice([3, 6])):
                r = rng.randrange(10)
                if r < 4:
                    line = declgen.rand_decl_line(rng, s_)
                elif r < 5:
                    line = "help"
                elif r < 7 and allv:
                    nm = declgen.q(rng.choice(allv))
                    line = rng.choice(["help " + nm, nm + " -h", nm + " --help", nm])
                else:
                    line = None
                if line is None:
                    ops += gen.rand_session_ops(rng, rng.choice([3, 8]), api=True, malformed=True)
                else:
                    ops.append("b:" + gen.hx(line.encode("utf-8")))
                    if rng.randrange(4) == 0:
                        ops.append("b:09")
                    ops.append("b:0d")
            cap = rng.choice([0, 1, 2, 5, 9, 17, 33, 64, 120, 120, 120])
            dses.append("%d %d %d d%d %s" % (cap, rng.choice([0, 1, 7, 32, 64]), rng.randrange(4), k, ";".join(ops)))
    dses += tab_sweep_sessions(declgen, sets)
    # what the library itself prints back: an undeclared short / long option and an unexpected argument made of characters of every length
    for k, s_ in enumerate(sets[:6]):
        nm0 = declgen.q((declgen.all_names(s_) or ["x"])[0])
        for ch in ("\u00e9", "\u20ac", "\U0001f600", "\U00011fcc", "\U0010ffff"):
            dses.append(lines_to_session(k, [nm0 + " -" + ch, nm0 + " -v" + ch + "x", nm0 + " --" + ch * 3, nm0 + " a b c d e " + ch], cap=60))
    # every value-taking argument of every command with the edge values of its type (empty, far too long, multi-byte, other case):
    # a conversion written for one field type panics only there
    for k, s_ in enumerate(sets):
        if not thorough and k >= 24:
            break
        vl = [l for e in declgen.set_enums(s_) for c_ in e["cmds"] for l in declgen.value_edge_lines(rng, c_)]
        for i in range(0, len(vl), 10):
            dses.append(lines_to_session(k, vl[i:i + 10], cap=130))
    ck.run_family(Family("derived-session-malformed-debug", "ses", dses, oracle=oracle, shrink=core.shrink_ops_line(4), decisive=False,
                         project=lambda o: [(s_["r"], s_["text"], s_["cur"], s_["hist"], s_["calls"]) for s_ in (parse_steps(o) or [])] or o,
                         nontrivial=lambda c, o: True))
    if thorough:
        ck.run_family(Family("session-malformed-release", "ses", ses[:4000], oracle=oracle, shrink=core.shrink_ops_line(4), decisive=False, profile="release",
                             project=lambda o: [(s_["r"], s_["text"], s_["cur"], s_["hist"], s_["calls"]) for s_ in (parse_steps(o) or [])] or o,
                             nontrivial=lambda c, o: True))
    return ck.finish(trusted=TB_COMMON + ["rustc debug profile: overflow checks, debug_assert!, the standard library's UB-precondition checks (get_unchecked, copy_nonoverlapping, "
                     "from_raw_parts_mut, unwrap_unchecked, from_u32_unchecked); memory safety of the compiled Rust itself is a runtime fact the model cannot exhibit (partial by nature)"],
                     rule="random sessions over arbitrary bytes 0..255 (malformed-weighted), all keys, Cli::write (write_str, writeln_str, ufmt, core::fmt, write_title, write_list_element with any column width) and set_prompt interleaved, with the scripted handler and with generated derived command sets (parsers, help and completion emitted by the proc-macros; multi-byte names), command buffer and history buffer sizes 0..64 (small sizes "
                     "weighted); debug build with overflow and UB-precondition checks; every worker exit status inspected, every line validated as UTF-8; state also compared with the "
                     "checked-style model (None = panic site reached). Every case counts as non-trivial (distinct sessions)")


# ------------------------------------------------------------------ C11 completion
AC_NAMESETS = [
    [b"get-led", b"set-led", b"get-adc"], [b"get-led", b"go"], [b"go", b"get-led"], [b"help-me", b"hello"], [b"h"], [b"he", b"help", b"helper"],
    ["привет".encode(), "приказ".encode()], ["led-佐".encode(), "led-佗".encode()], [b"a", b"ab", b"abc"], [b"abc", b"ab", b"a"], [b"x"], [],
    [b"exit", b"e-ot\xc3\xa9\xf0\x9f\x98\x80", b"eee"], [b"set", b"status", b"start", b"stop"], [b"stop", b"set", b"start", b"status"],
]


def c11(ck):
    rng = ck.rng
    thorough = ck.tier == "thorough"
    cases, spec_in = [], []
    reqs = {}
    n = 30000 if thorough else 6000
    for _ in range(n):
        names = list(rng.choice(AC_NAMESETS))
        rng.shuffle(names)
        pool = names + [b"help"]
        base = rng.choice(pool) if rng.randrange(6) else gen.rand_text(rng, 3, 2)
        w = base[:rng.randrange(0, len(base) + 1)]
        try:
            w.decode("utf-8")
        except UnicodeDecodeError:
            w = base
        lead = b" " * rng.choice([0, 0, 0, 1, 2])
        if rng.randrange(12) == 0:
            # a word that BEGINS with white space other than the ASCII blank is still one word (and matches nothing)
            lead += chr(rng.choice(gen.WS_CPS)).encode("utf-8") + b" " * rng.choice([0, 0, 1])
        trail = b" " * rng.choice([0, 0, 0, 1, 3])
        extra = rng.choice([b"", b"", b"", b" x", b"x y"])
        text = lead + w + extra + trail
        nchars = len(text.decode("utf-8"))
        back = rng.choice([0, 0, 0, 1, 2, len(trail), nchars])
        back = min(back, nchars)
        tlen = len(text)
        cap = tlen + rng.choice([0, 0, 1, 1, 2, 3, 4, 6, 8, 20])
        # editor script: type the text, move left `back` times, Tab with the candidates the derived scan would merge
        ops = ["i:" + gen.hx(text)] if text else []
        ops += ["ml"] * back
        cursor = nchars - back
        # the request word, to choose which continuations the (derived) scan would offer; the engine prints the request it really
        # formed and the oracle skips the case if they differ
        tchars = text.decode("utf-8")
        right = tchars[cursor:]
        removed = (len(right) - len(right.rstrip(" "))) if cursor < nchars else 0
        tt = tchars[:len(tchars) - removed]
        word = tt.lstrip(" ")
        reqw = word.encode("utf-8") if word and " " not in word else None
        cands = []
        if reqw is not None:
            for nm in names + [b"help"]:
                if nm.startswith(reqw):
                    cands.append(gen.hx(nm[len(reqw):]))
        reqs[len(cases)] = gen.hx(reqw) if reqw is not None else "N"
        ops.append("ac:" + ",".join(cands) if cands else "ac")
        cases.append("%d %s;tr:%d" % (cap, ";".join(ops), len(cases)))
        spec_in.append("%d %s %s %d" % (cap, ",".join(gen.hx(x) for x in names) if names else "-", gen.hx(text), cursor))
    spec = drv_run("acspec", spec_in)
    want = {}
    words = {}
    for c, si, so in zip(cases, spec_in, spec):
        want[c] = so

    def oracle(case, io):
        last = io.split(" ")[-2]
        req, text, cur = last.split(":")
        if req != reqs[int(case.rsplit("tr:", 1)[1])]:
            return ("the word the property completes (the line without blanks after the cursor and without leading ASCII blanks, if it is a single word) is %s, "
                    "the implementation formed the completion request %s" % (reqs[int(case.rsplit("tr:", 1)[1])], req))
        # reconstruct the typed word from the case to make sure the offered candidates correspond to the request
        got = "%s:%s" % (text, cur)
        if got != want[case]:
            return "completion spec gives %s, implementation gave %s (request %s)" % (want[case], got, req)
        return None

    # keep only cases whose request equals the word the candidates were computed for (decided by the implementation's own request output)
    ck.run_family(Family("editor-completion", "ed", cases, oracle=oracle, shrink=None,
                         nontrivial=lambda c, o: not o.split(" ")[-2].startswith("N:")))
    # derived command sets through the whole Cli: prefix of a name, Tab, at buffer sizes from exactly full to roomy
    declgen, sets = ensure_decls(ck)
    dcases, dspec_in = [], []
    for k, s_ in enumerate(sets):
        vis = declgen.visible_names(s_)
        fulls = list(vis) + ["help"]
        for it in range((60 if thorough else 25) + len(fulls)):
            pool = vis + ["help"]
            base = rng.choice(pool) if pool and rng.randrange(8) else "zz"
            w = base[:rng.randrange(1, len(base) + 1)]
            if it < len(fulls):
                base = w = fulls[it]
            lead = " " * rng.choice([0, 0, 1])
            text = (lead + w).encode("utf-8")
            capx = len(text) + rng.choice([0, 1, 2, 3, 5, 8, 30])
            dcases.append("%d 16 1 d%d b:%s;b:09" % (capx, k, gen.hx(text)))
            dspec_in.append("%d %s %s %d" % (capx, ",".join(gen.hx(x.encode("utf-8")) for x in vis) if vis else "-", gen.hx(text), len((lead + w))))
    dwant = dict(zip(dcases, drv_run("acspec", dspec_in)))

    def oracle_d(case, io):
        st = parse_steps(io)
        if st is None:
            return "crash / malformed output: " + io[:300]
        got = "%s:%s" % (st[-1]["text"], st[-1]["cur"])
        if got != dwant[case]:
            return "completion spec gives %s after Tab, implementation has %s" % (dwant[case], got)
        return None

    ck.run_family(Family("derived-tab", "ses", dcases, oracle=oracle_d, shrink=None,
                         project=lambda o: [(s_["text"], s_["cur"]) for s_ in (parse_steps(o) or [])] or o,
                         nontrivial=lambda c, o: True))
    m = 6000 if thorough else 3000
    ses = [gen.rand_session(rng, 30, api=False) for _ in range(m)]
    ck.run_family(Family("session-tab", "ses", ses, shrink=core.shrink_ops_line(4), decisive=False, oracle=make_abstract_oracle(ses, fields=("text", "cur")),
                         project=lambda o: [(s_["text"], s_["cur"]) for s_ in (parse_steps(o) or [])] or o,
                         nontrivial=lambda c, o: ";b:09" in c))
    return ck.finish(trusted=TB_COMMON, rule="editor-completion: name sets with shared prefixes, prefix-of-another, multi-byte names, every order; line = blanks + prefix of a name (or random) "
                     "+ optional further words + blanks; cursor anywhere; buffer size from exactly full to roomy; Editor::autocompletion + merge_autocompletion driven with the continuations of "
                     "the matching names; result compared with the extracted complete_spec and with the model; session-tab: random sessions with Tab through the whole Cli "
                     "(built-in help candidate). non-trivial = a completion request was formed")


# ------------------------------------------------------------------ derived command sets (C09, C11, C12, C14)
def ensure_decls(ck):
    """generate the declaration sets for this seed/tier, write harness/src/gen_decls.rs and build/decls.txt"""
    import random, sys
    sys.path.insert(0, os.path.join(core.ROOT, "gen"))
    import declgen
    n = 40 if ck.tier == "thorough" else 20
    sets = declgen.generate(random.Random(ck.seed * 7919 + 17), n)
    declgen.write_all(sets, os.path.join(core.HARNESS_DIR, "src", "gen_decls.rs"), os.path.join(core.BUILD, "decls.txt"))
    os.environ["VERIF_DECLS"] = os.path.join(core.BUILD, "decls.txt")
    ck._bin.clear()   # a harness built earlier in this run may predate the declarations just written
    ck.cov["declaration_sets"] = len(sets)
    return declgen, sets


def tab_sweep_sessions(declgen, sets, maxpre=3):
    """Tab on short prefixes of every name with multi-byte characters at EVERY command-buffer size between the typed prefix and the whole
    name (+1 for the trailing blank, +1 beyond): the free space ends on every byte of every character of the completion"""
    out = []
    for k, s_ in enumerate(sets):
        for nm in declgen.all_names(s_):
            nb = nm.encode("utf-8")
            if len(nb) == len(nm):
                continue
            for j in range(1, min(maxpre, len(nm)) + 1):
                pre = nm[:j].encode("utf-8")
                for lead in ("", "20"):
                    for cap in range(len(pre) + len(lead) // 2, len(nb) + len(lead) // 2 + 3):
                        out.append("%d 16 1 d%d b:%s%s;b:09;b:0d" % (cap, k, lead, gen.hx(pre)))
                # Tab that finds nothing to do (an argument was started / blanks follow), then ONLY a cursor move, then Tab again: the second
                # request is another one (the blanks right of the cursor do not count)
                for blanks, lefts in ((1, 1), (2, 2), (2, 1)):
                    out.append("%d 16 1 d%d b:%s%s;b:09;%sb:09;b:5a;b:0d" % (len(nb) + 8, k, gen.hx(pre), "20" * blanks, "b:1b5b44;" * lefts))
                # editing right AFTER the completion put multi-byte characters into the line: Backspace over them, Left and an insertion
                # (a cursor or a cached "ASCII only" flag not brought up to date by the completion shows here)
                for tail in ("b:08;b:08", "b:08;b:08;b:08;b:78", "b:1b5b44;b:1b5b44;b:78", "b:1b5b44;b:6e", "b:08;b:1b5b44;b:08;b:79;b:1b5b43;b:1b5b43;b:7a"):
                    out.append("%d 16 1 d%d b:%s;b:09;%s;b:0d;b:1b5b41" % (len(nb) + 8, k, gen.hx(pre), tail))
                # blanks after the word and the cursor moved back into them (and into the word) before Tab
                for blanks, lefts in ((1, 1), (2, 1), (2, 2), (3, 1), (0, 1)):
                    out.append("%d 16 1 d%d b:%s%s;%sb:09;b:5a;b:0d" % (len(nb) + 8, k, gen.hx(pre), "20" * blanks, "b:1b5b44;" * lefts))
        # the same with OTHER Unicode white space after the word (no-break, ideographic, em space, NEL): only 0x20 is a blank for the
        # library, these are ordinary characters of the line - for every name, multi-byte or not
        for nm in declgen.all_names(s_)[:3]:
            pre = nm[:max(1, len(nm) - 1)].encode("utf-8")
            for ws in ("\u3000", "\u00a0", " \u2003", "\u0085 ", "\u3000\u3000"):
                for lefts in (1, 2):
                    out.append("%d 16 1 d%d b:%s;b:%s;%sb:09;b:5a;b:0d;b:1b5b41" % (len(nm.encode("utf-8")) + 12, k, gen.hx(pre), gen.hx(ws.encode("utf-8")), "b:1b5b44;" * lefts))
    return out


def lines_to_session(k, lines, cap=80, hcap=64):
    # the command buffer always holds the longest line of the session (the oracles speak about the line as generated)
    cap = max([cap] + [len(l.encode("utf-8")) + 4 for l in lines])
    return "%d %d 1 d%d %s" % (cap, hcap, k, ";".join("b:" + gen.hx(l.encode("utf-8")) + ";b:0d" for l in lines))


def sink_text(step):
    if step["sink"] == "-":
        return b""
    return b"".join(bytes.fromhex(o[1:]) for o in step["sink"].split(",") if o.startswith("W") and o != "W.")


def enter_steps(case, out):
    """(line, step) for every Enter of a session built by lines_to_session"""
    st = parse_steps(out)
    if st is None:
        return None
    ops = case.split(" ", 4)[4].split(";")
    res, k = [], 1
    line = None
    for op in ops:
        n = len(op[2:]) // 2
        if op == "b:0d":
            res.append((line, st[k] if k < len(st) else None))
        else:
            line = bytes.fromhex(op[2:]).decode("utf-8")
        k += n
    return res


def c09(ck):
    rng = ck.rng
    thorough = ck.tier == "thorough"
    declgen, sets = ensure_decls(ck)
    per = 600 if thorough else 400
    cases = []
    for k, s_ in enumerate(sets):
        lines = [declgen.rand_decl_line(rng, s_) for _ in range(per)]
        for e in declgen.set_enums(s_):
            for c_ in e["cmds"]:
                lines += declgen.missing_arg_lines(rng, c_)       # each required argument missing on its own
                lines += declgen.signed_boundary_lines(rng, c_)   # integer positionals at and beyond both ends of their range (after `--`)
                lines += declgen.value_edge_lines(rng, c_)        # every value-taking argument with the edge values of its type
                lines += declgen.double_dash_lines(rng, c_)       # more than one `--` on the line
                if c_["args"]:
                    # an undeclared short / long option and an extra argument made of a scalar at a boundary of the encoded length
                    # (what the error line prints back is encoded by the library itself)
                    ch_ = chr(rng.choice([0x7F + 1, 0x7FF, 0x800, 0xFFFF, 0x10000, 0x10001, 0xFFFFF, 0x100000, 0x10FFFF]))
                    lines += [declgen.q(declgen.cmd_name(c_)) + " -" + ch_, declgen.q(declgen.cmd_name(c_)) + " --" + ch_ + ch_]
        for i in range(0, len(lines), 8):
            cases.append(lines_to_session(k, lines[i:i + 8], cap=120))
        # the second time: the same line again right away, after a rejected line, after a help request
        for l in rng.sample(lines, min(len(lines), 10)):
            cases.append(lines_to_session(k, [l, l, "nosuch --x", l, "help", l, l + " --help", l], cap=120))

    def proj(o):
        st = parse_steps(o)
        if st is None:
            return o
        return [(x["r"], x["calls"], sinkb(x["sink"])) for x in st if x["calls"] != "-" or "0d0a" in sinkb(x["sink"])]

    def oracle(case, io):
        es = enter_steps(case, io)
        if es is None:
            return "crash / malformed output: " + io[:300]
        for line, st in es:
            if st is None:
                return "missing step"
            txt = sink_text(st)
            n_err = txt.count(b"error: ")
            if st["calls"] != "-" and n_err:
                return "line `%s`: handler was called AND an error line was printed" % line
            if "+" in st["calls"]:
                return "line `%s`: handler called more than once" % line
        return None

    ck.run_family(Family("derived-parse-sessions", "ses", cases, project=proj, oracle=oracle, shrink=core.shrink_ops_line(4),
                         nontrivial=lambda c, o: True))
    return ck.finish(trusted=TB_COMMON + ["gen/declgen.py: renders one abstract declaration to Rust source (compiled with the repository's macros) and to the model's declaration term; "
                                          "'all declarations' is sampled: corpus sets + random sets from the attribute space each run"],
                     rule="for every generated declaration set (unit/struct/tuple-subcommand variants; positional/option/flag fields of &str,u8,bool,char; Option; default_value; default_value_t; "
                     "custom short/long/value_name/name; nested sub-commands; groups; hidden groups; multi-byte names) lines are generated from the declaration: valid invocations with "
                     "options anywhere, each error kind (unknown command, unexpected argument/option, unparsable value, missing argument, missing option value), help-shaped lines; typed "
                     "value (canonical field-by-field rendering) or error line compared with the model of the emitted parser. Every session counts as non-trivial")


def c12(ck):
    rng = ck.rng
    thorough = ck.tier == "thorough"
    declgen, sets = ensure_decls(ck)
    cases, meta = [], {}
    for k, s_ in enumerate(sets):
        vis = declgen.visible_names(s_)
        allv = declgen.all_names(s_)
        lines = ["help"]
        for nm in allv:
            lines.append("help " + declgen.q(nm))
            lines.append(declgen.q(nm) + " -h")
        lines.append("help nope")
        for e in declgen.set_enums(s_):
            for c_ in e["cmds"]:
                if c_["sub"] is None:
                    continue
                valued = [a for a in c_["args"] if a["kind"] == "opt"]
                flags = [a for a in c_["args"] if a["kind"] == "flag"]
                subn = [declgen.cmd_name(x) for x in c_["sub"]["enum"]["cmds"]] or ["x"]
                nm = declgen.cmd_name(c_)
                def oname(a):
                    return ("--" + declgen.arg_long(a)) if declgen.arg_long(a) else ("-" + declgen.arg_short(a))
                for v_ in valued[:2]:
                    for f_ in flags[:2]:
                        for sn in subn[:2]:
                            lines.append(" ".join(declgen.q(x) for x in [nm, oname(v_), oname(f_), sn, "--help"]))
                            lines.append(" ".join(declgen.q(x) for x in ["help", nm, oname(v_), oname(f_), sn]))
                            lines.append(" ".join(declgen.q(x) for x in [nm, oname(f_), oname(v_), "val", sn, "-h"]))
        for _ in range(40 if thorough else 30):
            e = rng.choice(declgen.set_enums(s_))
            t = declgen.rand_cmd_tokens(rng, e)
            pos = rng.randrange(1, len(t) + 1)
            if "--" in t[:pos]:
                continue
            t = t[:pos] + [rng.choice(["-h", "--help"])] + t[pos:]
            lines.append(" ".join(declgen.q(x) for x in t))
            t2 = declgen.rand_cmd_tokens(rng, e)
            lines.append("help " + " ".join(declgen.q(x) for x in t2[:rng.randrange(1, len(t2) + 1)]))
        for i in range(0, len(lines), 8):
            c = lines_to_session(k, lines[i:i + 8], cap=120)
            cases.append(c)
            meta[c] = (vis, [n for n in allv if n not in vis])

    def proj(o):
        st = parse_steps(o)
        if st is None:
            return o
        return [(x["r"], x["calls"], sinkb(x["sink"])) for x in st if x["calls"] != "-" or "0d0a" in sinkb(x["sink"])]

    def oracle(case, io):
        es = enter_steps(case, io)
        if es is None:
            return "crash / malformed output: " + io[:300]
        vis, hid = meta[case]
        for line, st in es:
            if st is None:
                return "missing step"
            if st["calls"] != "-":
                return "help-shaped line `%s` reached the handler: %s" % (line, st["calls"])
            if line == "help":
                txt = sink_text(st).decode("utf-8", "replace").split("\r\n")
                firsts = [l.split()[0] for l in txt if l.startswith("  ") and l.split()]
                for nm in vis:
                    if " " in nm:
                        continue
                    if firsts.count(nm) != 1 and vis.count(nm) == 1:
                        return "`help` lists command `%s` %d times (expected exactly once)" % (nm, firsts.count(nm))
                for nm in hid:
                    if nm in firsts and nm not in vis:
                        return "`help` lists the command `%s` of a hidden group" % nm
        return None

    ck.run_family(Family("derived-help-sessions", "ses", cases, project=proj, oracle=oracle, shrink=core.shrink_ops_line(4),
                         nontrivial=lambda c, o: True))
    # which lines ARE help requests, with the scripted handler (everything that is not one must reach it): `help` followed by options,
    # -h / --help inside clusters, after `--`, as a value of nothing; judged by the abstract session (dispatch = help_request of Model/Args.v)
    hl = []
    for _ in range(3000 if thorough else 800):
        toks = [rng.choice(gen.ARG_TOKENS + [b"-v", b"-vh", b"-hv", b"--all", b"led", b"-x", b"help", b"-h", b"--help"]) for _ in range(rng.choice([0, 1, 2, 3, 4]))]
        hl.append("64 32 1 raw b:%s;b:0d" % gen.hx(gen.cmd_line(rng.choice([b"help", b"help", b"he", b"echo", b"x", b"--help", b"-h"]), toks)))
    hl = sorted(set(hl))
    ck.run_family(Family("help-routing-sessions", "ses", hl, oracle=make_abstract_oracle(hl, fields=("calls",)), shrink=None,
                         project=lambda o: [x["calls"] for x in (parse_steps(o) or [])] or o, nontrivial=lambda c, o: True))
    # the README's shape: a group whose last member is the library's own RawCommand (it parses every line, completes nothing, and knows
    # no command when asked for help). Not in the model; judged by the property's own words.
    names0 = declgen.all_names(sets[0])
    rlines = ["help", "help nosuch", "nosuch -h", "nosuch --help x", "nosuch -vh", "nosuch a b", "help " + names0[0], names0[0] + " --help", names0[-1] + " -h",
              "help nosuch " + names0[0], "x -- -h", names0[0], "help"]
    rcases = ["%d 32 %d draw %s" % (cap_, pi_, ";".join("b:" + gen.hx(l.encode()) + ";b:0d" for l in rlines)) for cap_ in (40, 64) for pi_ in (1, 2)]

    def oracle_rawmember(case, io):
        st = parse_steps(io)
        if st is None:
            return "crash / malformed output: " + io[:300]
        k = 1
        unknown = gen.hx(b"error: unknown command")
        for l in rlines:
            k += len(l.encode()) + 1
            f = st[k - 1]
            out = sinkb(f["sink"])
            if l in ("help nosuch", "nosuch -h", "nosuch --help x", "nosuch -vh", "help nosuch " + names0[0]):
                if f["calls"] != "-":
                    return "help-shaped line `%s` reached the handler: %s" % (l, f["calls"])
                if not out.startswith("0d0a" + unknown + "0d0a"):
                    return "help about the unknown command in `%s` (group with a RawCommand member) does not print `error: unknown command`: sink %s" % (l, out)
            elif l == names0[0]:
                if not f["calls"].startswith(gen.hx(l.encode())):
                    return "the known command `%s` must go to the FIRST member that knows it (the derived enum, not the RawCommand catch-all), handler saw %s" % (l, f["calls"])
            elif l in ("nosuch a b", "x -- -h"):
                if f["calls"] != "R" + gen.hx(l.split(" ")[0].encode()):
                    return "the line `%s` must reach the RawCommand member of the group, handler saw %s" % (l, f["calls"])
            elif l == "help":
                if f["calls"] != "-":
                    return "`help` reached the handler"
                txt = bytes.fromhex(out).decode("utf-8", "replace").split("\r\n")
                firsts = [x.split()[0] for x in txt if x.startswith("  ") and x.split()]
                if sorted(firsts) != sorted(names0):
                    return "`help` of the group lists %s, expected each of %s exactly once" % (firsts, names0)
            else:
                if f["calls"] != "-" or unknown in out or len(out) < 40:
                    return "help for the known command in `%s` is missing: calls %s, sink %s" % (l, f["calls"], out[:120])
        return None

    ck.run_family(Family("group-with-rawcommand-member", "ses", rcases, oracle=oracle_rawmember, impl_only=True, decisive=False, shrink=None,
                         nontrivial=lambda c, o: True))
    return ck.finish(trusted=TB_COMMON + ["gen/declgen.py (declarations sampled: corpus + random sets each run)"],
                     rule="for every generated declaration set: `help`, `help <name>` and `<name> -h` for every declared name (hidden ones too), `help nope`, help options inserted at every "
                     "position of generated invocations, `help` followed by nested sub-command paths; direct oracle: no help-shaped line reaches the handler, `help` lists every visible "
                     "command exactly once and no hidden one; full help text compared with the model of the emitted help code. Every session counts as non-trivial")


# ------------------------------------------------------------------ C16 features
def c16(ck):
    import concurrent.futures as cf
    rng = ck.rng
    thorough = ck.tier == "thorough"
    declgen, sets = ensure_decls(ck)
    fsets = list(core.FEATSETS.keys())
    try:
        with cf.ThreadPoolExecutor(max_workers=8) as ex:
            bins = dict(zip(fsets, ex.map(lambda f: core.build_harness(f, "debug"), fsets)))
        drv = core.build_driver()
    except Broken as b:
        ck.broken(b)
        return ck.finish(trusted=TB_COMMON, rule="build broke")
    ck._bin.update({(f, "debug"): b for f, b in bins.items()})
    ck.cov["feature_sets_built"] = fsets
    n = 2500 if thorough else 1200
    ses = [gen.rand_session(rng, rng.choice([15, 35])) for _ in range(n)]
    # sessions with help-shaped lines and Tab / Up / Down at known places
    for line in ["help", "help echo", "echo -h", "echo --help a", "x -vh", "he", "quiet -- -h"]:
        ses.append("24 32 1 raw b:%s;b:09;b:0d;b:1b5b41;b:1b5b42;b:0d" % gen.hx(line.encode()))
    for k, s_ in enumerate(sets):
        if k < (len(sets) if thorough else 23):
            lines = [declgen.rand_decl_line(rng, s_) for _ in range(6)] + ["help", declgen.q((declgen.all_names(s_) or ["x"])[0]) + " --help"]
            ses.append(lines_to_session(k, lines, cap=100))
            # every command with nothing after its name, and with every positional but the last: "missing required argument" by its
            # usage name (value_name attributes included) must read the same whatever features are compiled in
            bare = []
            for e in declgen.set_enums(s_):
                for c_ in e["cmds"]:
                    nm_ = declgen.q(declgen.cmd_name(c_))
                    bare.append(nm_)
                    npos = len([a for a in c_["args"] if a["kind"] == "pos"])
                    if npos > 1:
                        bare.append(nm_ + " v" * (npos - 1))
                    bare += declgen.missing_arg_lines(rng, c_)
            for i in range(0, len(bare), 8):
                ses.append(lines_to_session(k, bare[i:i + 8], cap=100))
            nm = (declgen.visible_names(s_) or ["x"])[0]
            ses.append("30 32 1 d%d b:%s;b:09;b:0d;b:1b5b41" % (k, gen.hx(nm[:1].encode("utf-8"))))
            # Tab on prefixes of names of HIDDEN groups (no feature may turn them into completion candidates), and on a few visible ones
            vis_ = declgen.visible_names(s_)
            hid_ = [x for x in declgen.all_names(s_) if x not in vis_]
            for nm in hid_[:4] + vis_[1:3]:
                for pre in {nm[:1], nm[:-1]} - {""}:
                    ses.append("40 32 1 d%d b:%s;b:09;b:0d;b:1b5b41;b:0d" % (k, gen.hx(pre.encode("utf-8"))))
    # sink faults: sessions that use none of the three facilities (no Up/Down, no Tab, no help-shaped line), every sink call of every key
    # failed once / for good on the full build, then a lone Enter and `x` Enter with a working sink. The fault position is a sink-call
    # number, so these are compared ACROSS BUILDS only (same code, same calls), not with the model.
    fault_base = ["16 32 1 raw b:6563686f206162630d", "24 33 1 raw b:646f207361622070322078710d", "16 32 1 raw b:6c6e20610d;b:6e6c20620d",
                  "16 32 1 raw b:70726f6d707420620d;b:6d696420610d", "16 33 1 raw b:6e6f7065206120620d", "16 32 0 raw b:7365742061;b:1b5b44;b:08;b:0d0a",
                  "16 32 1 raw b:6162;w:s68690a,s78;b:0d", "16 32 1 raw b:6162;p:2;b:0d"]
    fault_cases = set()
    for b, o in zip(fault_base, core.run_engine(bins["hac"], "ses", fault_base)):
        st = parse_steps(o)
        if st is None:
            continue
        head, ops = b.split(" ", 4)[:4], b.split(" ", 4)[4].split(";")
        flat = []
        for op in ops:
            if op.startswith("b:"):
                flat += ["b:" + op[2:][i:i + 2] for i in range(0, len(op[2:]), 2)]
            else:
                flat.append(op)
        for k in range(1, len(st)):
            for j in range(0 if st[k]["sink"] == "-" else len(st[k]["sink"].split(","))):
                for mode in ("once", "perm"):
                    fault_cases.add(" ".join(head) + " " + ";".join(flat[:k - 1] + ["x:%d:%s" % (j, mode), flat[k - 1], "x:off", "b:0d", "b:78", "b:0d"]))
    ses += sorted(fault_cases)
    base = core.run_engine(bins["hac"], "ses", ses)

    def uses(case):
        if case in fault_cases:
            return {"h": False, "a": False, "c": False}
        ops = case.split(" ", 4)[4]
        flat = "".join(op[2:] for op in ops.split(";") if op.startswith("b:") and op[2:] != ".")
        # conservative: any CSI opener may turn into Up / Down (also across op boundaries), any 0x09 byte may be a Tab
        return {"h": "1b5b" in flat, "a": "09" in flat,
                "c": True}  # help requests cannot be recognised syntactically here; equivalence is only claimed off history / autocomplete

    for fs in fsets:
        has = lambda ch: fs != "none" and ch in fs
        impl = core.run_engine(bins[fs], "ses", ses)
        model = core.run_engine(drv + " ses " + fs if False else drv, "ses", ses, is_impl=False) if False else None
        # model configured alike
        import subprocess
        model = run_model_featset(drv, ses, fs)
        # canonical form of a session output: result, line, cursor, history, prompt, handler calls and the SCREEN its bytes paint
        p_impl, p_model, p_base = drv_run("termproj", impl), drv_run("termproj", model), drv_run("termproj", base)
        bad = 0
        nontriv = 0
        for idx, (c, io, mo, bo) in enumerate(zip(ses, impl, model, base)):
            st = parse_steps(io)
            reason = None
            if st is None:
                reason = ("crash", "implementation crashed under feature set %s: %s" % (fs, io[:200]))
            else:
                # direct oracles first
                u = uses(c)
                if not has("h"):
                    k = 1
                    prevb = b"aa"      # the two bytes received before the op (session start = ground state)
                    for op in c.split(" ", 4)[4].split(";"):
                        if op.startswith("b:"):
                            nb = len(op[2:]) // 2
                            # ESC [ A / ESC [ B is the Up / Down key only from the decoder's ground state: the byte before it must have
                            # ended any CSI sequence (a final byte 0x40..0x7E that is not the `[` of an ESC [ opener)
                            ground = 0x40 <= prevb[-1] <= 0x7E and not (prevb[-1] == 0x5B and prevb[-2] == 0x1B)
                            prevb = (prevb + (bytes.fromhex(op[2:]) if op[2:] != "." else b""))[-2:]
                            if op[2:] in ("1b5b41", "1b5b42") and k + 2 < len(st) and ground:
                                s_ = st[k + 2]
                                prev = st[k - 1]
                                if s_["sink"] != "-" or (s_["text"], s_["cur"]) != (prev["text"], prev["cur"]):
                                    reason = ("oracle", "history off: Up/Down changed the line or wrote to the terminal (step %d: line %s -> %s, sink %s)" % (k + 2, prev["text"], s_["text"], s_["sink"]))
                            k += nb
                        elif op[0] in "wp":
                            k += 1
                if reason is None and not has("a"):
                    k = 1
                    for op in c.split(" ", 4)[4].split(";"):
                        if op.startswith("b:"):
                            nb = len(op[2:]) // 2
                            if op[2:] == "09" and k < len(st):
                                s_, prev = st[k], st[k - 1]
                                if s_["sink"] != "-" or (s_["text"], s_["cur"]) != (prev["text"], prev["cur"]):
                                    reason = ("oracle", "autocomplete off: Tab changed the line or wrote to the terminal (step %d)" % k)
                            k += nb
                        elif op[0] in "wp":
                            k += 1
                if reason is None and not has("c"):
                    # help lines are delivered to the handler like any other command: `help...` / `... --help` lines must produce a call or a parse error, never help text
                    if c.startswith("24 32 1 raw b:") and ";b:09;b:0d;" in c:
                        nline = len(c.split("b:")[1].split(";")[0]) // 2
                        idx = 1 + nline + 1
                        if idx < len(st) and st[idx]["calls"] == "-":
                            reason = ("oracle", "help off: the help-shaped line %s was not delivered to the handler" % c.split("b:")[1].split(";")[0])
                if reason is None and ((has("a") or not u["a"]) and (has("h") or not u["h"]) and (has("c") or not u["c"])):
                    bst = parse_steps(bo)
                    nohist = lambda P: [" | ".join(f for i_, f in enumerate(st_.split("|")) if i_ != 3) for st_ in P.split(" ; ")]
                    if bst is not None and nohist(p_impl[idx]) != nohist(p_base[idx]):
                        reason = ("oracle", "feature set %s differs from the full build on a session that does not use the disabled facility" % fs)
                mst = parse_steps(mo)
                if reason is None and c not in fault_cases and (mst is None or p_impl[idx] != p_model[idx]):
                    reason = ("diff", "feature set %s: implementation and model (configured alike) differ" % fs)
                nontriv += 1
            if reason and bad < 2:
                bad += 1
                ck.report("features-" + fs, reason[0], reason[1], {"case": c, "featset": fs, "implementation_output": io, "model_output": mo,
                                                                    "replay_cmd": "echo '%s' | build/target-%s/debug/verif-harness ses" % (c, fs)},
                          decisive=True)  # the property itself is stated relative to the reference model configured the same way
        ck.count("features-" + fs, len(ses), nontriv, sample=ses[0][:200])
    return ck.finish(trusted=TB_COMMON, rule="the harness is built under all eight subsets of {history, autocomplete, help} (macros on); the same sessions (random raw sessions, help-shaped "
                     "lines, Tab, Up/Down, derived command sets with --help inside invocations) run on each build and on the model configured with the same feature record; direct oracles: "
                     "history off => Up/Down change nothing and write nothing; a session not using a disabled facility behaves exactly as on the full build")


def run_model_featset(drv, ses, fs):
    import subprocess
    p = subprocess.run([drv, "ses", fs], input="\n".join(ses) + "\n", capture_output=True, text=True)
    out = p.stdout.split("\n")
    if out and out[-1] == "":
        out.pop()
    if len(out) != len(ses):
        raise Broken("model driver failed under feature set " + fs, p.stderr[-2000:])
    return out


PROPS = {"C04": c04, "C02": c02, "C07": c07, "C08": c08, "C13": c13, "C05": c05, "C10": c10, "C17": c17, "C06": c06, "C15": c15, "C14": c14, "C01": c01, "C03": c03, "C11": c11, "C09": c09, "C12": c12, "C16": c16}
