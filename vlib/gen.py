"""Generators shared by the property checks. Every random choice comes from the rng passed in."""
import itertools

def hx(bs):
    return "".join("%02x" % b for b in bs) if bs else "."

def enc(cp):
    return chr(cp).encode("utf-8")

BOUNDARY_CPS = [0x20, 0x21, 0x41, 0x61, 0x7E, 0x80, 0xA9, 0xE9, 0x3BB, 0x7FF, 0x800, 0x20AC, 0x2192, 0xD7FF, 0xE000, 0xFFFD, 0xFFFF,
                0x10000, 0x1F600, 0x10FFFF]

# Unicode White_Space other than the ASCII blank: the library separates words at the ASCII blank only (str::trim* would strip these too)
WS_CPS = [0x85, 0xA0, 0x1680, 0x2000, 0x2003, 0x2009, 0x2028, 0x2029, 0x202F, 0x205F, 0x3000]

# scalars whose LOW BYTE is a byte the library gives a meaning to (h - blank quote backslash NUL CR LF TAB ESC [ DEL): a comparison on a
# truncated value (`c as u8`) would confuse them with it
LOWBYTE_CPS = [base + b for b in (0x68, 0x2D, 0x20, 0x22, 0x5C, 0x00, 0x0D, 0x0A, 0x09, 0x1B, 0x5B, 0x7F, 0x08) for base in (0x100, 0x4F00, 0x1F400)]

def rand_cp(rng, ascii_weight=5):
    k = rng.randrange(ascii_weight + 4)
    if k < ascii_weight:
        return rng.choice([rng.randrange(0x20, 0x7F), rng.randrange(0x61, 0x7B), 0x20, 0x22, 0x5C, 0x2D])
    if k == ascii_weight:
        return rng.randrange(0x80, 0x800)
    if k == ascii_weight + 1:
        c = rng.randrange(0x800, 0x10000)
        return c if not (0xD800 <= c <= 0xDFFF) else 0x20AC
    if k == ascii_weight + 2:
        return rng.randrange(0x10000, 0x110000)
    r_ = rng.randrange(8)
    return rng.choice(WS_CPS) if r_ == 0 else rng.choice(LOWBYTE_CPS) if r_ == 1 else rng.choice(BOUNDARY_CPS)

def rand_char(rng, ascii_weight=5):
    cp = rand_cp(rng, ascii_weight)
    if cp == 0x7F:
        cp = 0x7E
    return enc(cp)

def rand_text(rng, maxlen=8, ascii_weight=5, alphabet=None):
    n = rng.randrange(maxlen + 1)
    if alphabet:
        return b"".join(rng.choice(alphabet) for _ in range(n))
    return b"".join(rand_char(rng, ascii_weight) for _ in range(n))

# ---- key units (C04)
TERMS = ["tcr", "tlf", "tcrlf", "tlfcr"]

def rand_unit(rng):
    k = rng.randrange(20)
    if k < 7:
        return "c" + hx(rand_char(rng))
    if k < 9:
        return "bs"
    if k < 10:
        return "tab"
    if k < 15:
        return rng.choice(TERMS)
    if k < 18:
        n = rng.choice([0, 0, 1, 2, 5])
        ps = bytes(rng.choice([0x30, 0x31, 0x3B, 0x3F, 0x20, 0x39, 0x7F, 0x80, 0xFF, 0x0D, 0x0A, 0x1B, 0x08, 0x00]) for _ in range(n))
        f = rng.choice([0x41, 0x42, 0x43, 0x44, 0x40, 0x7E, 0x45, 0x5B, 0x61, 0x48, 0x7A])
        return "csi%s:%02x" % (hx(ps), f)
    return "ign%02x" % rng.choice([0x1B, 0x00, 0x07, 0x1F, 0x0B, 0x0C, 0x01, 0x1B])

def unit_first_last(u):
    """first byte and what the decoder remembers after the unit (mirror of first_of/last_after, used only to bias
    generation toward greedy lists; acceptance is decided by the extracted greedyb)"""
    if u.startswith("csi"):
        return 0x1B, int(u.split(":")[1], 16)
    if u.startswith("ign"):
        b = int(u[3:], 16); return b, b
    if u == "bs": return 8, 8
    if u == "tab": return 9, 9
    if u == "tcr": return 13, 13
    if u == "tlf": return 10, 10
    if u == "tcrlf": return 13, 0
    if u == "tlfcr": return 10, 0
    bs = bytes.fromhex(u[1:]); return bs[0], bs[-1]

def rand_units(rng, maxlen=40):
    n = rng.randrange(1, maxlen + 1)
    out = []
    last = 0
    while len(out) < n:
        u = rand_unit(rng)
        f, l = unit_first_last(u)
        if (last == 13 and f == 10) or (last == 10 and f == 13) or (last == 27 and f == 91):
            continue
        out.append(u)
        last = l
    return " ".join(out)

# 26 boundary byte classes for the decoder (C04 exhaustive family)
DEC_CLASSES = [0x00, 0x08, 0x09, 0x0A, 0x0D, 0x1B, 0x1F, 0x20, 0x30, 0x3F, 0x40, 0x41, 0x42, 0x43, 0x44, 0x45, 0x5B, 0x7E, 0x7F,
               0x80, 0xBF, 0xC3, 0xE2, 0xF0, 0xF5, 0xFF]

def product_hex(alphabet, depth):
    for k in range(depth + 1):
        for t in itertools.product(alphabet, repeat=k):
            yield hx(bytes(t))

def rand_bytes_malformed(rng, maxlen=24):
    n = rng.randrange(1, maxlen + 1)
    out = []
    for _ in range(n):
        k = rng.randrange(10)
        if k < 4:
            out.append(rng.randrange(0x80, 0x100))
        elif k < 6:
            out.append(rng.choice([0x1B, 0x5B, 0x0D, 0x0A, 0x08, 0x09, 0x41, 0x44, 0x43]))
        elif k < 8:
            out.append(rng.choice([0xC0, 0xC1, 0xC2, 0xDF, 0xE0, 0xED, 0xEF, 0xF0, 0xF4, 0xF5, 0xF7, 0xF8, 0x80, 0x8F, 0x90, 0x9F, 0xA0, 0xBF]))
        else:
            out.append(rng.randrange(0x00, 0x100))
    return bytes(out)

# ---------------------------------------------------------------- lines, tokens, editor, history, writer, sessions
TOK_ALPHA = [b"a", b" ", b'"', b"\\", b"-", "é".encode()]

def product_bytes(alphabet, depth):
    for k in range(depth + 1):
        for t in itertools.product(alphabet, repeat=k):
            yield b"".join(t)

def rand_line(rng, maxlen=30):
    n = rng.randrange(maxlen + 1)
    out = []
    for _ in range(n):
        k = rng.randrange(12)
        if k < 4: out.append(rng.choice([b"a", b"b", b"x", b"1"]))
        elif k < 6: out.append(b" ")
        elif k < 7: out.append(b'"')
        elif k < 8: out.append(b"\\")
        elif k < 9: out.append(b"-")
        else: out.append(rand_char(rng, 1))
    return b"".join(out)

def rand_string(rng, maxlen=6):
    n = rng.choice([0, 0, 1, 1, 2, 3, maxlen])
    return b"".join(rng.choice([b"a", b" ", b'"', b"\\", b"-", "é".encode(), "€".encode(), b"b", b"\\\"", b"  "]) for _ in range(n))

ARG_TOKENS = [b"", b"-", b"--", b"-a", "-aé".encode(), b"--x", b"---x", b"a", "é b".encode(), b"-h", b"--help", "-€h😀".encode(), b"--=", b"x-y",
              # quoted tokens that start with dashes and contain blanks, digits after a dash, a lone dash followed by a blank
              b"-a b", b"--long name", b"- item", "-б ".encode(), b"-- ", b"-1", b"-12", b"-007", b"--12", b" -x", b"a -b", b"-x1",
              # the help names in another letter case (they are NOT help), repeated characters in a cluster, runs of dashes
              b"-H", b"--HELP", b"--Help", b"-vv", "-ééa".encode(), b"-aab", b"----", b"----x", "-----б".encode(), b"--a--b"]

def quote_token(t):
    if t == b"" or b" " in t or b'"' in t or b"\\" in t:
        return b'"' + t.replace(b"\\", b"\\\\").replace(b'"', b'\\"') + b'"'
    return t

def cmd_line(name, toks):
    return b" ".join([name] + [quote_token(t) for t in toks])

ED_CHARS = [b"a", "é".encode(), "€".encode(), "😀".encode(), b" "]

def ed_ops_alphabet():
    return ["i:" + hx(c) for c in ED_CHARS[:4]] + ["ml", "mr", "rm"]

# every lead-byte class and the boundary scalars of each encoded length (random families; the exhaustive alphabet stays small)
ED_CHARS_WIDE = ED_CHARS + [enc(c) for c in (0xBF, 0x7FF, 0x800, 0xE01, 0xFFF, 0x1000, 0xD7FF, 0xE000, 0xFFFD, 0xFFFF, 0x10000, 0x3F000, 0x10FFFF, 0x44F)]

def rand_ed_ops(rng, n):
    ops = []
    chars = ED_CHARS if rng.randrange(3) else ED_CHARS_WIDE
    for _ in range(n):
        k = rng.randrange(20)
        if k < 9: ops.append("i:" + hx(rng.choice(chars)))
        elif k < 10: ops.append("i:" + hx(b"".join(rng.choice(chars) for _ in range(rng.randrange(0, 5)))))
        elif k < 13: ops.append("ml")
        elif k < 16: ops.append("mr")
        elif k < 19: ops.append("rm")
        else: ops.append("cl")
    return ops

HIST_LINES = [b"a", b"b", "é".encode(), b"ab", b"ba", "aé".encode(), b"abc", "€a".encode(), b"abcd", b"abcdefgh", b"",
              # upper / lower case twins, DEL (the decoder hands it on as a character, so a line can contain it), no-break space, blanks at the ends
              b"A", b"Ab", b"aB", b"a\x7f", b"\x7f", "a\u00a0".encode(), b" a", b"a "]

def rand_hist_ops(rng, n, lines=HIST_LINES):
    ops = []
    for _ in range(n):
        k = rng.randrange(10)
        if k < 5: ops.append("p:" + hx(rng.choice(lines)))
        elif k < 8: ops.append("o")
        else: ops.append("n")
    return ops

def rand_out_text(rng, maxlen=8):
    n = rng.randrange(maxlen + 1)
    return b"".join(rng.choice([b"a", b"b", b"\n", b"\r\n", b"\r", b" ", "é".encode(), b"\n\n", b"x"]) for _ in range(n))

def rand_writer_ops(rng, sep=";", kv=":"):
    n = rng.choice([0, 1, 1, 2, 3, 4])
    ops = []
    for _ in range(n):
        kind = rng.choice(["s", "s", "s", "l", "u", "f", "c", "t", "e", "g"])
        if kind == "g":
            # write!/writeln! with a literal format string (no run-time arguments): index into the literal table
            ops.append("g" + kv + "%02x" % rng.randrange(8))
        elif kind == "e":
            # write_list_element(name, description, longest_name): any column width, also one SMALLER than the name (bytes or chars)
            name = b"".join(rng.choice([b"a", b"b", b"-", "\u00e9".encode(), "\u0441".encode(), "\u20ac".encode()]) for _ in range(rng.randrange(0, 6)))
            hxe = lambda b: hx(b) if b else ""
            ops.append("e" + kv + hxe(name) + "." + hxe(rand_out_text(rng, 4)) + ".%d" % rng.choice([0, 1, 2, 3, len(name.decode()), len(name), len(name) + 1, 9, 31, 33, 40, 64, 100, 300]))
        else:
            ops.append(kind + kv + hx(rand_out_text(rng)))
    return sep.join(ops) if ops else ("-" if sep == ";" else "")

KEYS = {"left": b"\x1b[D", "right": b"\x1b[C", "up": b"\x1b[A", "down": b"\x1b[B", "bs": b"\x08", "tab": b"\t"}
RAW_CMDS = [b"echo", b"nl", b"crlf", b"ln", b"mid", b"lnmid", b"fmt", b"prompt", b"quiet", b"empty", b"help", b"he", b"foo", b"x", b"HELP", b"Help", b"Echo"]

def rand_do_line(rng, chars=None):
    """a line for the scripted `do` command: every argument is one handler action (writes of every flavour, literal format strings,
    set_prompt) - any order, any number"""
    toks = []
    for _ in range(rng.choice([1, 2, 2, 3, 4])):
        k = rng.choice("sslnmpgcfutex")       # x: the processor rejects the command after the output so far (odd history sizes only)
        if k in "pg":
            t = bytes([rng.choice(b"01234567abc")])
        else:
            t = b"".join(rng.choice(chars or [b"a", b"b", b" ", "\u00e9".encode(), b"x", b"-"]) for _ in range(rng.randrange(0, 4)))
        toks.append(quote_token(k.encode() + t))
    return b"do " + b" ".join(toks)

MB = ["\u00e9", "\u0436", "\u20ac", "\u4f50", "\U0001d51e"]

def rand_scenario(rng):
    """small multi-step situations that random key mixing rarely produces"""
    r = rng.randrange(7)
    ops = []
    if r == 6:
        # the second time: the same line twice in a row, again after an error line, after a help request, after a prompt-changing command,
        # after a line that filled the buffer; Tab twice; Up after every one of them
        l = rng.choice([b"echo a b", b"ln x", b"mid y", b"nl", "echo \u00e9".encode("utf-8"), b'echo "a b" -v --x', b"quiet", b"fmt 1"])
        between = rng.choice([[], ["b:" + hx(b"nosuch -x"), "b:0d"], ["b:" + hx(b"help"), "b:0d"], ["b:" + hx(b"prompt b"), "b:0d"],
                              ["b:" + hx(b"x" * 70), "b:0d"], ["b:" + hx(b"he"), "b:09", "b:09", "b:0d"], ["b:" + hx(b"do sa x"), "b:0d"]])
        ops += ["b:" + hx(l), "b:0d"] + between + ["b:" + hx(l), rng.choice(["b:0d", "b:0d0a"]), "b:" + hx(KEYS["up"]), "b:" + hx(KEYS["up"]), "b:0d"]
    elif r == 0:
        # Tab after a (partial) command word followed by blanks, with the cursor moved back among the blanks or into the word
        w = rng.choice([b"he", b"hel", b"help", b"h", b"ec", b"x"])
        tail = b" " * rng.choice([0, 1, 2, 3])
        if rng.randrange(4) == 0:
            # other Unicode white space: ordinary characters for the library, white space for str::trim and char::is_whitespace
            tail = rng.choice([b"", b" "]) + enc(rng.choice(WS_CPS)) + rng.choice([b"", b" ", enc(rng.choice(WS_CPS))])
        ops.append("b:" + hx(w + tail))
        ops += ["b:" + hx(KEYS["left"])] * rng.choice([0, 1, 1, 2, 3])
        ops.append("b:09")
        if rng.randrange(3) == 0:
            # a second Tab after nothing but cursor moves (the request changes with the cursor: blanks right of it do not count)
            ops += ["b:" + hx(KEYS[rng.choice(["left", "left", "right"])])] * rng.choice([1, 2]) + ["b:09"]
        if rng.randrange(2): ops.append("b:" + hx(rng.choice([b"x", b" y", b""])))
        ops.append("b:0d")
    elif r == 1:
        # `help` followed by options, among them -h / --help, also inside clusters and after --
        toks = [rng.choice(ARG_TOKENS + [b"-v", b"-vh", b"--all", b"led", b"-x"]) for _ in range(rng.choice([1, 2, 3]))]
        ops.append("b:" + hx(cmd_line(rng.choice([b"help", b"help", b"he", b"echo"]), toks)))
        ops.append("b:0d")
    elif r == 2:
        # a line, another line, then a PREFIX of the first line that ends in front of a multi-byte character; then Up as often as entries
        p_ = rng.choice([b"caf", b"a", b"x y"])
        first = p_ + rng.choice(MB).encode("utf-8") + rng.choice([b"", b"z"])
        for l in (first, rng.choice([b"x", b"q r"]), p_):
            ops += ["b:" + hx(l), "b:0d"]
        ops += ["b:" + hx(KEYS["up"])] * rng.choice([2, 3, 4])
        if rng.randrange(2): ops.append("b:0d")
    elif r == 3:
        # a line that ends inside an unclosed quoted token, with blanks at its end
        ops.append("b:" + hx(rng.choice([b"say ", b"", b"a "]) + b'"' + rng.choice([b"hi", b"", b"x y"]) + b" " * rng.choice([1, 2])))
        ops.append("b:0d")
    elif r == 4:
        # the command buffer filled until characters are rejected, then editing goes on
        ops.append("b:" + hx(b"abcdefghijklmnopqrstuvwxyz"[:rng.choice([3, 8, 9, 16])]))
        ops.append("b:" + hx(rng.choice([b"i", "\u0436".encode("utf-8")])))
        ops += rng.choice([["b:08"], ["b:" + hx(KEYS["left"]), "b:58"], ["b:" + hx(KEYS["left"])] * 3 + ["b:5a", "b:08"]])
        ops.append("b:0d")
    else:
        # recall over a longer / shorter line with multi-byte text
        ops += ["b:" + hx(rng.choice(MB).encode("utf-8") * rng.choice([1, 3])), "b:0d", "b:" + hx(rng.choice([b"ab", b"hello"])), rng.choice(["b:0d", "b:61"]),
                "b:" + hx(KEYS["up"]), "b:" + hx(KEYS["up"]), "b:" + hx(KEYS["down"]), "b:" + hx(KEYS["down"])]
    return ops

def rand_word(rng):
    k = rng.randrange(10)
    if k < 4: return rng.choice(RAW_CMDS)
    if k < 6: return rng.choice(ARG_TOKENS)
    return b"".join(rand_char(rng, 3) for _ in range(rng.randrange(1, 4))).replace(b" ", b"a")

def rand_session_ops(rng, nops=30, api=True, malformed=False, faults=False):
    """list of session ops (strings). Mostly-valid key units; optional API calls, malformed bytes, fault arming."""
    ops = []
    for _ in range(nops):
        k = rng.randrange(100)
        if k < 4:
            ops.append("b:" + hx(rand_do_line(rng)))
            if rng.randrange(5): ops.append("b:0d")
        elif k < 7:
            ops += rand_scenario(rng)
        elif k < 30:
            w = rand_word(rng)
            if rng.randrange(4) == 0:
                w = quote_token(w + b" " + rand_word(rng))
            ops.append("b:" + hx(w))
        elif k < 38: ops.append("b:20")
        elif k < 44: ops.append("b:" + hx(rand_char(rng, 2)))
        elif k < 52: ops.append("b:" + hx(KEYS["left"]))
        elif k < 57: ops.append("b:" + hx(KEYS["right"]))
        elif k < 63: ops.append("b:" + hx(KEYS["bs"]))
        elif k < 69: ops.append("b:" + hx(KEYS["up"]))
        elif k < 73: ops.append("b:" + hx(KEYS["down"]))
        elif k < 78: ops.append("b:" + hx(KEYS["tab"]))
        elif k < 88: ops.append("b:" + hx(rng.choice([b"\r", b"\n", b"\r\n", b"\n\r"])))
        elif k < 92:
            if api: ops.append("w:" + rand_writer_ops(rng, sep=",", kv=""))
            else: ops.append("b:61")
        elif k < 95:
            if api: ops.append("p:%d" % rng.randrange(4))
            else: ops.append("b:62")
        elif k < 98:
            if malformed: ops.append("b:" + hx(rand_bytes_malformed(rng, 4)))
            else: ops.append("b:" + hx(rng.choice([b"\x1b", b"\x1b[5~", b"\x00", b"\x1b[1;5C"])))
        else:
            if faults: ops.append("x:%d:%s" % (rng.randrange(4), rng.choice(["once", "perm"])))
            else: ops.append("b:2d")
    if api:
        ops = split_with_api(rng, ops)
    return ops

def split_with_api(rng, ops, p=12):
    """now and then an application call (Cli::write, set_prompt) lands BETWEEN the bytes of one key: inside a multi-byte character, inside
    an ESC [ sequence, between CR and LF"""
    out = []
    for op in ops:
        if op.startswith("b:") and len(op) >= 6 and op[2:] != "." and rng.randrange(p) == 0:
            h = op[2:]
            k = 2 * rng.randrange(1, len(h) // 2)
            out += ["b:" + h[:k], rng.choice(["w:s6f", "w:s6f6b0a", "p:%d" % rng.randrange(4), "w:"]), "b:" + h[k:]]
        else:
            out.append(op)
    return out

SMALL_CAPS = [0, 1, 2, 3, 4, 5, 7, 8, 8, 12, 16, 16, 24, 40, 64]

def rand_session(rng, nops=30, cmdset="raw", **kw):
    cap = rng.choice(SMALL_CAPS)
    hcap = rng.choice(SMALL_CAPS)
    if rng.randrange(40) == 0:
        cap, hcap = 24, 40          # the harness builds this pair with owned arrays as buffers (impl Buffer for [u8; N])
    return "%d %d %d %s %s" % (cap, hcap, rng.randrange(4), cmdset, ";".join(rand_session_ops(rng, nops, **kw)))


W1_CHARS = [b"a", b"b", b"x", b"-", b"h", "é".encode(), "λ".encode(), "→".encode(), "ж".encode(), b"1", b'"']

def rand_session_w1(rng, nops=30):
    """sessions over width-1 printable characters only (C06's quantifier)"""
    cap = rng.choice(SMALL_CAPS)
    hcap = rng.choice(SMALL_CAPS)
    ops = []
    for _ in range(nops):
        k = rng.randrange(100)
        if k < 4:
            ops.append("b:" + hx(rand_do_line(rng, chars=[b"a", b"b", b" ", "\u00e9".encode(), b"x"])))
            if rng.randrange(5): ops.append("b:0d")
        elif k < 7:
            ops += rand_scenario(rng)
        elif k < 25:
            w = rng.choice([b"echo", b"nl", b"crlf", b"ln", b"mid", b"lnmid", b"fmt", b"prompt", b"quiet", b"help", b"he", b"x", b"hel"])
            ops.append("b:" + hx(w))
        elif k < 33: ops.append("b:20")
        elif k < 45: ops.append("b:" + hx(rng.choice(W1_CHARS)))
        elif k < 55: ops.append("b:" + hx(KEYS["left"]))
        elif k < 60: ops.append("b:" + hx(KEYS["right"]))
        elif k < 66: ops.append("b:" + hx(KEYS["bs"]))
        elif k < 72: ops.append("b:" + hx(KEYS["up"]))
        elif k < 76: ops.append("b:" + hx(KEYS["down"]))
        elif k < 81: ops.append("b:" + hx(KEYS["tab"]))
        elif k < 89: ops.append("b:" + hx(rng.choice([b"\r", b"\n", b"\r\n", b"\n\r"])))
        elif k < 95:
            n = rng.choice([1, 1, 2, 3])
            ws = []
            for _ in range(n):
                t = b"".join(rng.choice([b"a", b"b", b"\n", b"\r\n", b" ", "é".encode(), b"x", b""]) for _ in range(rng.randrange(0, 6)))
                if rng.randrange(8) == 0: ws.append("g%02x" % rng.randrange(8))
                else: ws.append(rng.choice("sluc") + hx(t))
            ops.append("w:" + ",".join(ws))
        else: ops.append("p:%d" % rng.randrange(4))
    ops = split_with_api(rng, ops)
    return "%d %d %d raw %s" % (cap, hcap, rng.randrange(4), ";".join(ops))


# ---- sizes beyond 255 (a length, cursor or offset kept in a narrower integer than usize shows only there)
def long_text(rng, n, alphabet=(b"a", b"b", b"c", b"x", "\u00e9".encode(), "\u20ac".encode())):
    return b"".join(rng.choice(alphabet) for _ in range(n))

def long_ed_cases(rng, n):
    out = []
    for _ in range(n):
        cap = rng.choice([300, 520, 700])
        ops = ["i:" + hx(long_text(rng, rng.choice([40, 64, 90]))) for _ in range(rng.choice([3, 4, 6]))]
        ops += ["ml"] * rng.choice([1, 200, 257, 270]) + ["i:78", "rm"] + ["mr"] * rng.choice([0, 3, 260]) + ["i:" + hx(long_text(rng, 30)), "rm", "ml", "ml", "rm"]
        out.append("%d %s" % (cap, ";".join(ops)))
    return out

def long_hist_cases(rng, n):
    out = []
    for _ in range(n):
        hcap = rng.choice([600, 1100])
        lines = [long_text(rng, rng.choice([100, 250, 256, 257, 300])) for _ in range(rng.choice([2, 3, 5]))]
        ops = []
        for l in lines + [lines[0]]:
            ops.append("p:" + hx(l))
            ops += ["o"] * rng.choice([0, 1, 3]) + ["n"] * rng.choice([0, 1])
        ops += ["o"] * 6 + ["n"] * 7
        out.append("%d %s" % (hcap, ";".join(ops)))
    return out

def long_sessions(rng, n, cmdword=b"echo ", api=True):
    """a line longer than 255 bytes / characters typed, the cursor moved back over position 256, an insertion and a deletion there,
    application output while it is edited, submission, recall"""
    out = []
    for _ in range(n):
        cap, hcap = rng.choice([400, 700]), rng.choice([0, 350, 900])
        body = long_text(rng, rng.choice([256, 262, 300]), alphabet=(b"a", b"b", b"c", b" ", "\u00e9".encode(), "\u03bb".encode()))
        ops = ["b:" + hx(cmdword + body), "b:" + hx(KEYS["left"] * rng.choice([5, 258, 270])), "b:58", "b:08", "w:s6869,s0a",
               "b:" + hx(KEYS["right"] * rng.choice([0, 2, 259])), "b:0d", "b:" + hx(KEYS["up"]), "b:" + hx(KEYS["left"] * 3), "b:59", "b:0d",
               "b:" + hx(KEYS["up"]), "b:" + hx(KEYS["up"]), "b:" + hx(KEYS["down"]), "b:0d"]
        if not api:
            ops = [o for o in ops if not o.startswith("w:")]
        out.append("%d %d %d raw %s" % (cap, hcap, rng.randrange(4), ";".join(ops)))
    return out
