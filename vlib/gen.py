"""Generators shared by the property checks. Every random choice comes from the rng passed in."""
import itertools

def hx(bs):
    return "".join("%02x" % b for b in bs) if bs else "."

def enc(cp):
    return chr(cp).encode("utf-8")

BOUNDARY_CPS = [0x20, 0x21, 0x41, 0x61, 0x7E, 0x80, 0xA9, 0xE9, 0x3BB, 0x7FF, 0x800, 0x20AC, 0x2192, 0xD7FF, 0xE000, 0xFFFD, 0xFFFF,
                0x10000, 0x1F600, 0x10FFFF]

def rand_cp(rng, ascii_weight=5):
    k = rng.randrange(ascii_weight + 4)
    if k < ascii_weight:
        return rng.choice([rng.randrange(0x20, 0x7F), rng.randrange(0x61, 0x7B), 0x20, 0x22, 0x5C, 0x2D])
    if k == ascii_weight:
        return rng.randrange(0x80, 0x800)
    if k == ascii_weight + 1:
        c = rng.randrange(0x800, 0x10000)
        return c if not (0xD800 <= c <= 0xDFFF) else 0x20AC
    if k == ascii_weight + 2:
        return rng.randrange(0x10000, 0x110000)
    return rng.choice(BOUNDARY_CPS)

def rand_char(rng, ascii_weight=5):
    cp = rand_cp(rng, ascii_weight)
    if cp == 0x7F:
        cp = 0x7E
    return enc(cp)

def rand_text(rng, maxlen=8, ascii_weight=5, alphabet=None):
    n = rng.randrange(maxlen + 1)
    if alphabet:
        return b"".join(rng.choice(alphabet) for _ in range(n))
    return b"".join(rand_char(rng, ascii_weight) for _ in range(n))

# ---- key units (C04)
TERMS = ["tcr", "tlf", "tcrlf", "tlfcr"]

def rand_unit(rng):
    k = rng.randrange(20)
    if k < 7:
        return "c" + hx(rand_char(rng))
    if k < 9:
        return "bs"
    if k < 10:
        return "tab"
    if k < 15:
        return rng.choice(TERMS)
    if k < 18:
        n = rng.choice([0, 0, 1, 2, 5])
        ps = bytes(rng.choice([0x30, 0x31, 0x3B, 0x3F, 0x20, 0x39, 0x7F, 0x80, 0xFF, 0x0D, 0x0A, 0x1B, 0x08, 0x00]) for _ in range(n))
        f = rng.choice([0x41, 0x42, 0x43, 0x44, 0x40, 0x7E, 0x45, 0x5B, 0x61, 0x48, 0x7A])
        return "csi%s:%02x" % (hx(ps), f)
    return "ign%02x" % rng.choice([0x1B, 0x00, 0x07, 0x1F, 0x0B, 0x0C, 0x01, 0x1B])

def unit_first_last(u):
    """first byte and what the decoder remembers after the unit (mirror of first_of/last_after, used only to bias
    generation toward greedy lists; acceptance is decided by the extracted greedyb)"""
    if u.startswith("csi"):
        return 0x1B, int(u.split(":")[1], 16)
    if u.startswith("ign"):
        b = int(u[3:], 16); return b, b
    if u == "bs": return 8, 8
    if u == "tab": return 9, 9
    if u == "tcr": return 13, 13
    if u == "tlf": return 10, 10
    if u == "tcrlf": return 13, 0
    if u == "tlfcr": return 10, 0
    bs = bytes.fromhex(u[1:]); return bs[0], bs[-1]

def rand_units(rng, maxlen=40):
    n = rng.randrange(1, maxlen + 1)
    out = []
    last = 0
    while len(out) < n:
        u = rand_unit(rng)
        f, l = unit_first_last(u)
        if (last == 13 and f == 10) or (last == 10 and f == 13) or (last == 27 and f == 91):
            continue
        out.append(u)
        last = l
    return " ".join(out)

# 26 boundary byte classes for the decoder (C04 exhaustive family)
DEC_CLASSES = [0x00, 0x08, 0x09, 0x0A, 0x0D, 0x1B, 0x1F, 0x20, 0x30, 0x3F, 0x40, 0x41, 0x42, 0x43, 0x44, 0x45, 0x5B, 0x7E, 0x7F,
               0x80, 0xBF, 0xC3, 0xE2, 0xF0, 0xF5, 0xFF]

def product_hex(alphabet, depth):
    for k in range(depth + 1):
        for t in itertools.product(alphabet, repeat=k):
            yield hx(bytes(t))

def rand_bytes_malformed(rng, maxlen=24):
    n = rng.randrange(1, maxlen + 1)
    out = []
    for _ in range(n):
        k = rng.randrange(10)
        if k < 4:
            out.append(rng.randrange(0x80, 0x100))
        elif k < 6:
            out.append(rng.choice([0x1B, 0x5B, 0x0D, 0x0A, 0x08, 0x09, 0x41, 0x44, 0x43]))
        elif k < 8:
            out.append(rng.choice([0xC0, 0xC1, 0xC2, 0xDF, 0xE0, 0xED, 0xEF, 0xF0, 0xF4, 0xF5, 0xF7, 0xF8, 0x80, 0x8F, 0x90, 0x9F, 0xA0, 0xBF]))
        else:
            out.append(rng.randrange(0x00, 0x100))
    return bytes(out)
