"""Orchestrator core: builds (Coq, extraction, OCaml driver, Rust harness), runs both sides on case files,
projects, diffs, shrinks, classifies, writes evidence."""
import concurrent.futures as cf
import glob
import hashlib
import json
import os
import random
import re
import subprocess
import sys
import time

ROOT = os.path.dirname(os.path.dirname(os.path.abspath(__file__)))
REPO = os.environ.get("VERIF_REPO", "/repo")
COQ = os.path.join(ROOT, "coq")
BUILD = os.path.join(ROOT, "build")
HARNESS_DIR = os.path.join(ROOT, "harness")
NPROC = 16

BANNED = re.compile(r"\b(Admitted|admit|Axiom|Axioms|Parameter|Parameters|Conjecture|Hypothesis|Variable)\b|Unset Guard|bypass_check|type-in-type|impredicative-set|Admit Obligations")
# Variable / Hypothesis are only allowed inside a Section
ALLOWED_AXIOMS = set()  # names of standard-library axioms we accept under Print Assumptions (none needed so far)

FEATSETS = {
    "hac": ["history", "autocomplete", "help"],
    "ha": ["history", "autocomplete"],
    "hc": ["history", "help"],
    "ac": ["autocomplete", "help"],
    "h": ["history"],
    "a": ["autocomplete"],
    "c": ["help"],
    "none": [],
}


SETUP_FEATSETS = ["hac", "ha", "hc", "ac", "h", "a", "c", "none"]


class Broken(Exception):
    """a proof obligation or the tie no longer checks; .what names it"""

    def __init__(self, what, detail=""):
        super().__init__(what)
        self.what = what
        self.detail = detail


def sh(cmd, cwd=None, timeout=1800, env=None, input=None):
    e = dict(os.environ)
    e["CARGO_NET_OFFLINE"] = "true"
    if env:
        e.update(env)
    p = subprocess.run(cmd, cwd=cwd, timeout=timeout, env=e, input=input, capture_output=True, text=True, shell=isinstance(cmd, str))
    return p.returncode, p.stdout, p.stderr


# ------------------------------------------------------------------ builds

def translate():
    rc, out, err = sh([sys.executable, os.path.join(ROOT, "gen", "translate_codes.py")], env={"VERIF_REPO": REPO})
    if rc != 0:
        raise Broken("translator gen/translate_codes.py (source shape no longer understood)", out + err)
    return out.strip()


# Constants the PROPERTY TEXTS name literally. Generated/Codes.v follows the source (so that a restructured but equal source still checks), which
# means a changed constant would silently change model and specs alike; the values the properties themselves spell out are pinned here.
PINNED = {
    "BACKSPACE": (8, ["C04"], "BS yields Backspace"), "TABULATION": (9, ["C04", "C11", "C16"], "TAB yields Tab"),
    "LINE_FEED": (10, ["C04", "C13"], "LF is a line terminator / becomes CR LF"), "CARRIAGE_RETURN": (13, ["C04", "C13"], "CR is a line terminator"),
    "ESCAPE": (27, ["C04"], "ESC [ starts a CSI sequence"), "CSI_INTRO": (91, ["C04"], "ESC [ starts a CSI sequence"),
    "CSI_FINAL_LO": (0x40, ["C04"], "a final byte (ECMA-48: 0x40..0x7E) ends the sequence"), "CSI_FINAL_HI": (0x7E, ["C04"], "a final byte (ECMA-48: 0x40..0x7E) ends the sequence"),
    "KEY_UP": (65, ["C04", "C10"], "final A is Up"), "KEY_DOWN": (66, ["C04", "C10"], "final B is Down"),
    "KEY_FORWARD": (67, ["C04", "C05"], "final C is Right"), "KEY_BACK": (68, ["C04", "C05"], "final D is Left"),
    "MIN_PRINTABLE": (32, ["C04", "C17"], "every scalar from U+0020 upward is a character"),
    "CRLF": ([13, 10], ["C13", "C01"], "each LF becomes CR LF"),
    "HELP_CANDIDATE": (list(b"help"), ["C11"], "the built-in `help` is a completion candidate"),
    "HELP_NAME": (list(b"help"), ["C12", "C16", "C01"], "a line `help` / `help <command>` is a help request"),
    "HELP_LONG": (list(b"help"), ["C12", "C16", "C01"], "--help is a help request"), "HELP_SHORT": (104, ["C12", "C16", "C17", "C01"], "-h is a help request"),
    "ERR_PREFIX": (list(b"error: "), ["C09", "C12"], "errors are reported as a single `error:` line"),
    "ERR_UNKNOWN": (list(b"unknown command"), ["C12"], "`error: unknown command`"),
    "HELP_ERR_1": (list(b"error: "), ["C12"], "asking about an unknown or hidden command prints `error: unknown command`"),
    "HELP_ERR_2": (list(b"unknown command"), ["C12"], "asking about an unknown or hidden command prints `error: unknown command`"),
}


def pinned_mismatches(pid):
    """[(name, found, wanted, phrase)] for the constants of Generated/Codes.v that the text of property pid names and that differ"""
    txt = open(os.path.join(COQ, "Generated", "Codes.v"), encoding="utf-8").read()
    out = []
    for name, (want, pids, phrase) in PINNED.items():
        if pid not in pids:
            continue
        m = re.search(r"Definition %s : (?:N|list N) := ([^.]*)\." % name, txt)
        if not m:
            out.append((name, None, want, phrase))
            continue
        v = m.group(1).strip()
        found = [int(x) for x in v.strip("[]").split(";") if x.strip()] if v.startswith("[") else int(v)
        if found != want:
            out.append((name, found, want, phrase))
    return out


def coq_makefile():
    mk = os.path.join(COQ, "Makefile")
    cp = os.path.join(COQ, "_CoqProject")
    if not os.path.exists(mk) or os.path.getmtime(mk) < os.path.getmtime(cp):
        rc, out, err = sh("coq_makefile -f _CoqProject -o Makefile", cwd=COQ)
        if rc != 0:
            raise Broken("coq_makefile", out + err)


def scan_banned():
    bad = []
    for f in glob.glob(os.path.join(COQ, "**", "*.v"), recursive=True):
        in_section = 0
        txt = open(f, encoding="utf-8").read()
        # strip comments (non-nested is enough for our files; nested handled by loop)
        prev = None
        while prev != txt:
            prev = txt
            txt = re.sub(r"\(\*(?:(?!\(\*|\*\)).)*\*\)", " ", txt, flags=re.S)
        for i, line in enumerate(txt.split("\n")):
            if re.match(r"\s*Section\b", line):
                in_section += 1
            if re.match(r"\s*End\b", line) and in_section > 0:
                in_section -= 1
            m = BANNED.search(line)
            if m:
                if m.group(1) in ("Variable", "Hypothesis") and in_section > 0:
                    continue
                bad.append("%s:%d: %s" % (os.path.relpath(f, ROOT), i + 1, line.strip()))
    if bad:
        raise Broken("banned keyword in the Coq development", "\n".join(bad))


def coq_build_property(pid, clean=False, targets=None):
    """(re)compile Properties/<pid>.v and everything it depends on; returns (n_theorems, n_closed, assumptions_text)"""
    coq_makefile()
    scan_banned()
    tgt = "Properties/%s.vo" % pid
    src = os.path.join(COQ, "Properties", pid + ".v")
    if not os.path.exists(src):
        raise Broken("Properties/%s.v missing" % pid)
    # always recompile the property file itself so that Print Assumptions output is fresh
    for ext in (".vo", ".glob", ".vos", ".vok"):
        try:
            os.remove(os.path.join(COQ, "Properties", pid + ext))
        except OSError:
            pass
    if clean:
        sh("make clean", cwd=COQ, timeout=600)
    rc, out, err = sh("timeout 3000 make -j%d %s" % (NPROC, tgt), cwd=COQ, timeout=3100)
    if rc != 0:
        m = re.search(r'File "\./([^"]+)", line (\d+)', err + out)
        where = "%s:%s" % (m.group(1), m.group(2)) if m else tgt
        raise Broken("proof obligation: %s no longer compiles (%s)" % (tgt, where), (out + err)[-3000:])
    txt = open(src, encoding="utf-8").read()
    theorems = re.findall(r"^\s*(?:Theorem|Corollary)\s+(\w+)", txt, re.M)
    prints = re.findall(r"^\s*Print Assumptions\s+(\w+)\s*\.", txt, re.M)
    missing = [t for t in theorems if t not in prints]
    if missing:
        raise Broken("Print Assumptions missing under theorem(s) %s in Properties/%s.v" % (missing, pid))
    closed = out.count("Closed under the global context")
    axioms = []
    for blk in re.findall(r"Axioms:\n((?:.+\n)+)", out):
        for l in blk.split("\n"):
            m = re.match(r"^(\S+)\s*:", l)
            if m:
                axioms.append(m.group(1))
    notallowed = [a for a in axioms if a not in ALLOWED_AXIOMS]
    if notallowed:
        raise Broken("axioms outside the allow-list under Properties/%s.v: %s" % (pid, notallowed), out)
    n_ax_blocks = out.count("Axioms:")
    if closed + n_ax_blocks < len(theorems):
        raise Broken("fewer Print Assumptions results (%d) than theorems (%d) in Properties/%s.v" % (closed + n_ax_blocks, len(theorems), pid), out)
    return theorems, closed + n_ax_blocks, sorted(set(axioms))


def coqchk(pid):
    rc, out, err = sh("timeout 1500 coqchk -silent -o -Q . EC EC.Properties.%s" % pid, cwd=COQ, timeout=1600)
    if rc != 0:
        raise Broken("coqchk on EC.Properties.%s" % pid, (out + err)[-3000:])
    return (out + err).strip()[-1500:]


def newest(paths):
    return max(os.path.getmtime(p) for p in paths)


def build_driver():
    """extract the model and build the OCaml driver when stale"""
    od = os.path.join(BUILD, "ocaml")
    os.makedirs(od, exist_ok=True)
    drv = os.path.join(od, "driver")
    ext = open(os.path.join(COQ, "Extract.v"), encoding="utf-8").read()
    mods = []
    for line in re.findall(r"From EC Require Import\s+((?:[^.]|\.(?=[A-Za-z]))+)\.", ext, re.S):
        mods.extend(line.split())
    # the extracted code depends on the files Extract.v imports (and, transitively, on what those import: all under Model/, Spec/, Generated/, Base.v)
    srcs = [os.path.join(COQ, "Extract.v"), os.path.join(COQ, "Base.v")] + glob.glob(os.path.join(COQ, "Model", "*.v")) + \
        glob.glob(os.path.join(COQ, "Spec", "*.v")) + glob.glob(os.path.join(COQ, "Generated", "*.v")) + glob.glob(os.path.join(ROOT, "ocaml", "*.ml"))
    if os.path.exists(drv) and os.path.getmtime(drv) >= newest(srcs):
        return drv
    coq_makefile()
    targets = " ".join(m.replace(".", "/") + ".vo" for m in mods)
    rc, out, err = sh("timeout 3000 make -j%d %s" % (NPROC, targets), cwd=COQ, timeout=3100)
    if rc != 0:
        raise Broken("model no longer compiles (needed for extraction)", (out + err)[-3000:])
    rc, out, err = sh("coqc -Q %s EC %s" % (COQ, os.path.join(COQ, "Extract.v")), cwd=od, timeout=900)
    if rc != 0:
        raise Broken("extraction (coq/Extract.v)", (out + err)[-3000:])
    sh("cp %s/*.ml ." % os.path.join(ROOT, "ocaml"), cwd=od)
    rc, out, err = sh("ocamlfind ocamlopt -package str -linkpkg -O3 -w -a model.mli model.ml util.ml engines.ml driver.ml -o driver", cwd=od, timeout=900)
    if rc != 0 or not os.path.exists(drv):
        raise Broken("OCaml driver build", (out + err)[-3000:])
    return drv


def build_harness(featset="hac", profile="debug"):
    """always rebuilds from /repo's working tree (cargo decides what is stale)"""
    cov = bool(os.environ.get("VERIF_COV"))   # development aid (tools/coverage.sh): line coverage of /repo by the families; never set by a registered command
    tdir = os.path.join(BUILD, ("target-cov-" if cov else "target-") + featset)
    lock = os.path.join(HARNESS_DIR, "Cargo.lock")
    if not os.path.exists(lock):
        sh(["cp", os.path.join(REPO, "Cargo.lock"), lock])
    feats = ",".join(FEATSETS[featset])
    cmd = ["cargo", "build", "--offline", "--no-default-features", "--features", feats, "--target-dir", tdir]
    if profile == "release":
        cmd.append("--release")
    if cov:
        cmd.insert(1, "+nightly")
        os.environ.setdefault("LLVM_PROFILE_FILE", os.path.join(BUILD, "cov", "%p-%m.profraw"))
    rc, out, err = sh(cmd, cwd=HARNESS_DIR, timeout=1800, env={"RUSTFLAGS": "-C instrument-coverage"} if cov else None)
    if rc != 0:
        raise Broken("harness build against %s (features %s)" % (REPO, feats or "none"), (out + err)[-4000:])
    return os.path.join(tdir, profile, "verif-harness")


# ------------------------------------------------------------------ running

CHUNK_TIMEOUT = int(os.environ.get("VERIF_CHUNK_TIMEOUT", "180"))


def _run_chunk(binary, engine, lines, is_impl):
    """returns list of output lines, same length as lines; crashes are attributed to the case"""
    outs = []
    todo = list(lines)
    while todo:
        try:
            p = subprocess.run([binary, engine], input="\n".join(todo) + "\n", capture_output=True, text=True, timeout=CHUNK_TIMEOUT)
        except subprocess.TimeoutExpired as te:
            # the worker hangs (an endless loop in the code under test): attributed to the case it was working on, like a crash
            so = te.stdout or ""
            if isinstance(so, bytes):
                so = so.decode("utf-8", "replace")
            got = so.split("\n")
            if got and got[-1] != "":
                got.pop()          # a partial last line belongs to the hanging case
            elif got:
                got.pop()
            k = min(len(got), len(todo) - 1)
            outs.extend(got[:k])
            outs.append("ABORT timeout: no answer within %d s (endless loop?)" % CHUNK_TIMEOUT)
            todo = todo[k + 1:]
            continue
        got = p.stdout.split("\n")
        if got and got[-1] == "":
            got.pop()
        if p.returncode == 0 and len(got) == len(todo):
            outs.extend(got)
            break
        # crashed while running case number len(got)
        k = min(len(got), len(todo) - 1)
        outs.extend(got[:k])
        tail = (p.stderr or "").strip().split("\n")[-3:]
        outs.append("ABORT rc=%s %s" % (p.returncode, " ".join(t.strip() for t in tail)[:300]))
        todo = todo[k + 1:]
    return outs


def run_engine(binary, engine, lines, is_impl=True):
    if not lines:
        return []
    n = min(NPROC, max(1, len(lines) // 50))
    size = (len(lines) + n - 1) // n
    chunks = [lines[i:i + size] for i in range(0, len(lines), size)]
    with cf.ThreadPoolExecutor(max_workers=NPROC) as ex:
        res = list(ex.map(lambda c: _run_chunk(binary, engine, c, is_impl), chunks))
    out = []
    for r in res:
        out.extend(r)
    assert len(out) == len(lines), (len(out), len(lines))
    return out


# ------------------------------------------------------------------ families and verdicts

class Family:
    """one family of cases.
    name        label
    engine      harness engine (impl side)
    cases       list of case lines (impl side)
    model_engine / model_cases   driver engine and lines (default: same as impl)
    project     function(output_line) -> comparable projection (applied to both sides)
    oracle      optional function(case_line, impl_output_line) -> None | reason   (direct spec oracle on the impl trace)
    decisive    True when the theorems determine the projection uniquely on these cases, so a mismatch is a property failure
    shrink      optional function(case_line) -> list of smaller candidate case lines
    nontrivial  function(case_line, impl_output) -> bool
    featset     harness feature set
    """

    def __init__(self, name, engine, cases, project=None, oracle=None, decisive=True, shrink=None, nontrivial=None,
                 model_engine=None, model_cases=None, featset="hac", exhaustive=False, profile="debug", impl_only=False, bulk_project=None):
        self.name = name
        self.engine = engine
        self.cases = cases
        self.project = project or (lambda s: s)
        self.oracle = oracle
        self.decisive = decisive
        self.shrink = shrink
        self.nontrivial = nontrivial or (lambda c, o: True)
        self.bulk_project = bulk_project   # optional function(list of output lines) -> list of projections (one external call for all)
        self.model_engine = model_engine or engine
        self.model_cases = model_cases
        self.featset = featset
        self.exhaustive = exhaustive
        self.profile = profile
        self.impl_only = impl_only


def shrink_ops_line(prefix_fields):
    """generic shrinker for `<k fixed fields> op;op;...` lines: drop one op or one chunk of ops"""

    def f(line):
        parts = line.split(" ", prefix_fields)
        if len(parts) <= prefix_fields:
            return []
        head, ops = parts[:prefix_fields], parts[prefix_fields].split(";")
        cands = []
        n = len(ops)
        if n > 1:
            half = n // 2
            cands.append(ops[:half])
            cands.append(ops[half:])
            step = max(1, n // 8)
            for i in range(0, n, step):
                cands.append(ops[:i] + ops[i + step:])
            if n <= 24:
                for i in range(n):
                    cands.append(ops[:i] + ops[i + 1:])
        return [" ".join(head + [";".join(c)]) for c in cands if c]

    return f


def shrink_hex_line(line):
    """shrinker for a single hex string: drop bytes"""
    if line in (".", ""):
        return []
    bs = [line[i:i + 2] for i in range(0, len(line), 2)]
    n = len(bs)
    cands = []
    if n > 1:
        cands.append(bs[:n // 2])
        cands.append(bs[n // 2:])
        for i in range(n):
            cands.append(bs[:i] + bs[i + 1:])
    return ["".join(c) if c else "." for c in cands]


class Check:
    def __init__(self, pid, tier, seed):
        self.pid = pid
        self.tier = tier
        self.seed = seed
        self.rng = random.Random(seed * 1000003 + sum(ord(c) for c in pid))
        self.t0 = time.time()
        self.violations = []  # (kind, text, replay_path)
        self.known = []
        self.cov = {"families": {}, "evaluations": 0, "distinct_nontrivial": 0, "samples": [], "raw_diffs": 0}
        self.theorems = []
        self.discharged = 0
        self.axioms = []
        self.notes = []
        self.replay_dir = os.path.join(ROOT, "replays", pid)
        self.known_findings = load_known(pid)
        self._bin = {}

    # --- proof side
    def proofs(self):
        try:
            self.notes += [l for l in translate().splitlines() if "FALLBACK" in l]
            self.pins()
            thorough = self.tier == "thorough"
            self.theorems, self.discharged, self.axioms = coq_build_property(self.pid, clean=False)
            if thorough:
                self.notes.append("coqchk: " + coqchk(self.pid)[-400:])
        except Broken as b:
            self.broken(b)
            return False
        return True

    def pins(self):
        """the constants the property text spells out must have the spelled-out value in the source (Generated/Codes.v, just regenerated)"""
        ms = pinned_mismatches(self.pid)
        for name, found, want, phrase in ms:
            show = lambda v: v if not isinstance(v, list) else bytes(v).decode("utf-8", "replace")
            self.report("pinned-constants", "oracle",
                        "constant %s of the source is %r; the property text requires %r (%s)" % (name, show(found), show(want), phrase),
                        {"case": "const:" + name, "constant": name, "found_in_source": found, "required_by_property": want, "phrase": phrase,
                         "how_to_see": "gen/translate_codes.py prints the value it reads from embedded-cli/src; any session using that key or message shows it"})
        self.count("pinned-constants", len([1 for v in PINNED.values() if self.pid in v[1]]), 0, exhaustive=True)
        return not ms

    def broken(self, b):
        path = self.write_replay("broken", {"broken": b.what, "detail": b.detail[-4000:]})
        self.violations.append(("broken", b.what, path, True))

    def write_replay(self, tag, obj):
        os.makedirs(self.replay_dir, exist_ok=True)
        h = hashlib.sha1(json.dumps(obj, sort_keys=True).encode()).hexdigest()[:10]
        path = os.path.join(self.replay_dir, "%s-%s.json" % (tag, h))
        with open(path, "w") as f:
            json.dump(obj, f, indent=1)
        return os.path.relpath(path, ROOT)

    def binaries(self, featset, profile):
        key = (featset, profile)
        if key not in self._bin:
            self._bin[key] = build_harness(featset, profile)
        return self._bin[key]

    # --- correspondence + oracle
    def run_family(self, fam):
        try:
            hb = self.binaries(fam.featset, fam.profile)
            drv = None if fam.impl_only else build_driver()
        except Broken as b:
            self.broken(b)
            return
        t = time.time()
        impl = run_engine(hb, fam.engine, fam.cases)
        model = None
        if not fam.impl_only:
            model = run_engine(drv, fam.model_engine, fam.model_cases or fam.cases, is_impl=False)
        nontriv = set()
        bad = []
        pimpl = pmodel = None
        if fam.bulk_project and model is not None:
            pimpl, pmodel = fam.bulk_project(impl), fam.bulk_project(model)
        for i, c in enumerate(fam.cases):
            io = impl[i]
            reason = None
            crashed = io.startswith("ABORT") or io.startswith("PANIC")
            if crashed:
                reason = ("crash", "implementation crashed: " + io)
            else:
                if fam.oracle:
                    r = fam.oracle(c, io)
                    if r:
                        reason = ("oracle", r)
                if reason is None and model is not None:
                    if model[i] == "NONE":
                        reason = ("model-none", "checked-style model reports a panic/UB site reached (None)")
                    elif (pimpl[i] != pmodel[i]) if pimpl is not None else (fam.project(io) != fam.project(model[i])):
                        reason = ("diff", "implementation and model differ on projection")
                    elif io != model[i]:
                        self.cov["raw_diffs"] += 1
            if reason:
                bad.append((i, reason))
            try:
                if fam.nontrivial(c, io):
                    nontriv.add(c)
            except Exception:
                pass
        st = self.cov["families"].setdefault(fam.name, {"cases": 0, "nontrivial_distinct": 0, "mismatches": 0, "seconds": 0.0, "exhaustive": fam.exhaustive})
        st["cases"] += len(fam.cases)
        st["nontrivial_distinct"] += len(nontriv)
        st["mismatches"] += len(bad)
        st["seconds"] = round(st["seconds"] + time.time() - t, 2)
        self.cov["evaluations"] += len(fam.cases)
        self.cov["distinct_nontrivial"] += len(nontriv)
        if fam.cases and len(self.cov["samples"]) < 12:
            k = self.rng.randrange(len(fam.cases))
            self.cov["samples"].append({"family": fam.name, "case": fam.cases[k][:400], "impl": impl[k][:400]})
        # failures with a concrete failing input (crash / spec oracle / model None) are reported before bare disagreements
        bad.sort(key=lambda x: 0 if x[1][0] in ("crash", "oracle", "model-none") else 1)
        # a bare disagreement in a non-decisive family: search the neighbourhood of the differing cases for an input on which the
        # property itself (the spec oracle on the implementation) fails
        if bad and bad[0][1][0] == "diff" and not fam.decisive and fam.oracle and fam.engine == "ses":
            found = self.search_near(fam, [fam.cases[i] for i, _ in bad[:6]], hb)
            if found:
                fam.cases.append(found[0])
                bad.insert(0, (len(fam.cases) - 1, ("oracle", found[1])))
        # report at most 3 distinct failures per family, each shrunk
        seen = 0
        for i, (kind, text) in bad:
            if seen >= 3:
                break
            seen += 1
            case = fam.cases[i]
            case, io, mo = self.shrink(fam, case, kind, hb, drv)
            decisive = kind in ("crash", "oracle", "model-none") or fam.decisive
            obj = {"property": self.pid, "family": fam.name, "engine": fam.engine, "featset": fam.featset, "kind": kind,
                   "what": text, "case": case, "implementation_output": io, "model_output": mo,
                   "replay_cmd": "echo '%s' | %s %s" % (case, os.path.relpath(hb, ROOT), fam.engine)}
            if not decisive:
                obj["broken"] = "correspondence %s/%s: projection of model and implementation differ; the spec does not decide this case" % (self.pid, fam.name)
            kf = match_known(self.known_findings, self.pid, fam.name, case)
            if kf:
                self.known.append(kf)
                continue
            path = self.write_replay(fam.name, obj)
            self.violations.append((kind, text, path, not decisive))

    def search_near(self, fam, cases, hb, tries=1200):
        """mutate differing session cases (insert / duplicate / replace ops) and look for one on which the spec oracle fails"""
        vocab = ["b:1b5b44", "b:1b5b44", "b:1b5b43", "b:08", "b:1b5b41", "b:1b5b42", "b:09", "b:0d", "b:20", "b:78", "b:c3a9", "w:s6869", "p:2"]
        muts = []
        for _ in range(tries):
            c = self.rng.choice(cases)
            parts = c.split(" ", 4)
            if len(parts) < 5:
                continue
            ops = parts[4].split(";")
            for _ in range(self.rng.randrange(1, 4)):
                k = self.rng.randrange(4)
                pos = self.rng.randrange(len(ops) + 1)
                if k == 0:
                    ops.insert(pos, self.rng.choice(vocab))
                elif k == 1 and ops:
                    ops.insert(pos, self.rng.choice(ops))
                elif k == 2 and len(ops) > 1:
                    del ops[min(pos, len(ops) - 1)]
                else:
                    ops.insert(pos, self.rng.choice(vocab))
                    ops.insert(min(pos + 1, len(ops)), self.rng.choice(vocab))
            muts.append(" ".join(parts[:4] + [";".join(ops)]))
        muts = list(dict.fromkeys(muts))
        try:
            outs = run_engine(hb, fam.engine, muts)
        except Broken:
            return None
        self.cov["search_mutants"] = self.cov.get("search_mutants", 0) + len(muts)
        for c, io in zip(muts, outs):
            if io.startswith("ABORT") or io.startswith("PANIC"):
                continue
            try:
                r = fam.oracle(c, io)
            except Exception:
                r = None
            if r:
                return c, r + " (found by searching near a model/implementation disagreement)"
        return None

    def _fails(self, fam, case, kind, hb, drv):
        io = run_engine(hb, fam.engine, [case])[0]
        mo = None
        if kind == "crash":
            return (io.startswith("ABORT") or io.startswith("PANIC")), io, mo
        if io.startswith("ABORT") or io.startswith("PANIC"):
            return False, io, mo
        if kind == "oracle":
            try:
                return bool(fam.oracle(case, io)), io, mo
            except Exception:
                return False, io, mo
        if drv is None:
            return False, io, mo
        try:
            mo = run_engine(drv, fam.model_engine, [case], is_impl=False)[0]
        except Exception:
            return False, io, mo
        if kind == "model-none":
            return mo == "NONE", io, mo
        if fam.bulk_project:
            a, b = fam.bulk_project([io, mo]) if mo != "NONE" else (0, 0)
            return (mo != "NONE" and a != b), io, mo
        return (mo != "NONE" and fam.project(io) != fam.project(mo)), io, mo

    def shrink(self, fam, case, kind, hb, drv):
        ok, io, mo = self._fails(fam, case, kind, hb, drv)
        if fam.shrink is None or fam.model_cases is not None:
            return case, io, mo
        budget = 400
        progress = True
        while progress and budget > 0:
            progress = False
            for cand in fam.shrink(case):
                budget -= 1
                if budget <= 0:
                    break
                try:
                    f, io2, mo2 = self._fails(fam, cand, kind, hb, drv)
                except Exception:
                    continue
                if f:
                    case, io, mo = cand, io2, mo2
                    progress = True
                    break
        return case, io, mo

    def report(self, family, kind, text, obj, decisive=True):
        obj = dict(obj)
        obj.update({"property": self.pid, "family": family, "kind": kind, "what": text})
        if not decisive:
            obj["broken"] = "correspondence %s/%s" % (self.pid, family)
        kf = match_known(self.known_findings, self.pid, family, str(obj.get("case", "")))
        if kf:
            self.known.append(kf)
            return
        path = self.write_replay(family, obj)
        self.violations.append((kind, text, path, not decisive))

    def count(self, family, cases, nontrivial, exhaustive=False, seconds=0.0, sample=None):
        st = self.cov["families"].setdefault(family, {"cases": 0, "nontrivial_distinct": 0, "mismatches": 0, "seconds": 0.0, "exhaustive": exhaustive})
        st["cases"] += cases
        st["nontrivial_distinct"] += nontrivial
        st["seconds"] = round(st["seconds"] + seconds, 2)
        self.cov["evaluations"] += cases
        self.cov["distinct_nontrivial"] += nontrivial
        if sample is not None and len(self.cov["samples"]) < 12:
            self.cov["samples"].append({"family": family, "case": sample})

    # --- finish
    def finish(self, level="proof", extra_assumptions=None, trusted=None, rule=""):
        wall = time.time() - self.t0
        cov = self.cov
        cov["obligations"] = len(self.theorems)
        cov["discharged"] = self.discharged if not any(v[0] == "broken" for v in self.violations) else 0
        cov["theorems"] = self.theorems
        cov["axioms_reported"] = self.axioms
        cov["checker_cmd"] = "cd coq && make Properties/%s.vo (coqc 8.16.1, Print Assumptions under every theorem%s)" % (
            self.pid, "; coqchk -o" if self.tier == "thorough" else "")
        cov["trusted_base"] = trusted or []
        cov["rule"] = rule
        cov["exhaustive"] = all(f["exhaustive"] for f in cov["families"].values()) if cov["families"] else False
        cov["notes"] = self.notes
        if not cov["samples"]:
            cov["samples"] = [{"obligations": self.theorems}]
        ev = {"property_id": self.pid, "tier": self.tier, "seed": self.seed, "level": level, "coverage": cov,
              "assumptions": extra_assumptions or [], "wall_s": round(wall, 2), "violations": len(self.violations)}
        evdir = os.path.join(BUILD, "evidence-dev") if getattr(self, "dev", False) else os.path.join(ROOT, "evidence")
        os.makedirs(evdir, exist_ok=True)
        with open(os.path.join(evdir, self.pid + ".json"), "w") as f:
            json.dump(ev, f, indent=1)
        for k in sorted(set(self.known)):
            print("KNOWN-FINDING: property=%s %s" % (self.pid, k))
        for kind, text, path, nofail in self.violations:
            print("  [%s] %s" % (kind, text))
            print("VIOLATION property=%s replay=%s%s" % (self.pid, path, " no-failing-input-found" if nofail else ""))
        print("%s %s: %d theorems, %d cases (%d distinct non-trivial), %d violation(s), %.1fs" % (
            self.pid, self.tier, len(self.theorems), cov["evaluations"], cov["distinct_nontrivial"], len(self.violations), wall))
        return 1 if self.violations else 0


def load_known(pid):
    path = os.path.join(ROOT, "known_findings.txt")
    out = []
    if os.path.exists(path):
        for line in open(path):
            line = line.strip()
            if line.startswith("finding:"):
                d = dict(kv.split("=", 1) for kv in line[len("finding:"):].split() if "=" in kv)
                if d.get("property") == pid:
                    d["_line"] = line
                    out.append(d)
    return out


def match_known(known, pid, family, case):
    for k in known:
        if k.get("family") == family and k.get("case") == case.replace(" ", "_"):
            return k.get("what", k["_line"])
    return None
